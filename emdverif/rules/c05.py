"""C05 - extrema are exact and envelopes interpolate them on the sample grid."""
import ast
from fractions import Fraction

from ..model import AnalysisError, unparse, walk_local
from ..paths import Evaluator, is_c, show, C, S, NONE, subterms, substitute
from ..boolnorm import nnf, show_nnf
from ..poly import Poly
from .common import mk_algebra, trace_tail
from . import l1

PROPERTY = 'C05'
EXPLANATION = (
    "R1 strict search: _find_extrema calls scipy.signal.argrelextrema with numpy.greater and order=1 and returns the "
    "found locations unfiltered on the default path. R2 conjugate troughs: with padding off, the trough branch of "
    "get_padded_extrema equals the peak branch under X -> -X with the magnitudes re-negated; abs_peaks searches |X|. "
    "R3 padding discipline: locations and magnitudes are padded by the same width in the same statements, the "
    "re-padding loop exits exactly under {max >= N, min < 0}. R4 sample grid: the abscissa handed to the interpolant "
    "is integer-valued for every option value (integrality domain with interprocedural summaries: parabolic "
    "refinement makes the locations real), it is the same arithmetic progression as the one the in-range mask is "
    "computed on, the mask is {t >= 0, t < N}, and a length mismatch raises. R5 method table: each documented "
    "interp_method builds its interpolant from the same (locations, magnitudes) and evaluates it on the same grid; "
    "other values raise. R6 parabola constants: w_inv * [[1,1,1],[4,2,1],[9,3,1]] = I over the rationals and the "
    "vertex formulas. Not decided: that odd reflection yields strictly increasing knots (trusted); spline values.")
RULE_TEXT = "one obligation per clause / extrema mode / interpolation method"
FLOORS = {'C05.R1': 2, 'C05.R2': 3, 'C05.R3': 3, 'C05.R4': 4, 'C05.R5': 4, 'C05.R6': 3}
PINNED_EXPECT = [('C05.R4', 'emd.sift.interp_envelope', 'integer-valued')]

FE = 'emd.sift._find_extrema'
GPE = 'emd.sift.get_padded_extrema'
IE = 'emd.sift.interp_envelope'
CPE = 'emd.sift.compute_parabolic_extrema'


def run(ctx):
    ctx.trust('scipy.signal.argrelextrema(x, np.greater, order=1)[0] are the integer positions of strict interior '
              'local maxima; np.pad keeps its input as the interior of the result and preserves integrality for the '
              'reflect/odd and median modes; spline / PCHIP interpolants pass through their knots')
    ctx.rule(rule_strict_search, 'C05.R1')
    ctx.rule(rule_conjugate, 'C05.R2')
    ctx.rule(rule_padding, 'C05.R3')
    ctx.rule(rule_grid, 'C05.R4')
    ctx.rule(rule_methods, 'C05.R5')
    ctx.rule(rule_parabola, 'C05.R6')
    # extrema / padding options reach the extrema routine as supplied (defaults only fill in what is missing)
    from .c06 import rule_no_replacement
    ctx.rule(rule_no_replacement, 'C05.R7', only={'emd.sift.interp_envelope', 'emd.sift.get_padded_extrema'})
    ctx.rule(rule_pad_width, 'C05.R7')
    # the extrema are handed back whenever there are at least two of them: "no extrema" (None) only for fewer than two
    from . import siftcore
    ctx.rule(siftcore.rule_none_chain, 'C05.R8', ctx.P.func('emd.sift.get_next_imf'))
    from . import l2
    ctx.rule(l2.rule_inplace_input_dtype, 'C05.R9', ['emd.sift.interp_envelope', 'emd.sift.get_padded_extrema',
                                                    'emd.sift._find_extrema', 'emd.sift.compute_parabolic_extrema'])
    l1.rule_lib_attrs(ctx, 'L1', [IE], 'envelope')


# ----------------------------------------------------------------------------------------------
def rule_strict_search(ctx, rid):
    P = ctx.P
    fi = P.func(FE)
    # the default path: callers in the sift cone never pass a prominence threshold, so its signature default applies
    import ast as _ast
    dflt = fi.defaults.get('peak_prom_thresh')
    try:
        dval = _ast.literal_eval(dflt) if dflt is not None else None
    except Exception:
        dval = '<expr>'
    exits = [e for e in Evaluator(P).run(fi, context={'peak_prom_thresh': dval, 'parabolic_extrema': False})
             if e.kind == 'return']
    ctx.paths += len(exits)
    c1 = 'extrema search is argrelextrema(X, numpy.greater, order=1)'
    c2 = 'on the default path the found locations are returned unfiltered with X[locs] as magnitudes'
    X = S(fi.params[0])
    want = ('sub', ('call', 'scipy.signal.argrelextrema', (X, ('ref', 'numpy.greater')), ()), C(0))
    calls = [t for e in exits for t in subterms(e.value) if t[0] == 'call' and 'argrelextrema' in t[1]]
    calls += [t for e in exits for c, _, _ in e.state.conds for t in subterms(c)
              if t[0] == 'call' and 'argrelextrema' in t[1]]
    if not calls:
        ctx.violation(rid, fi, c1, 'no argrelextrema search found')
    else:
        t = calls[0]
        cmpf = t[2][1] if len(t[2]) > 1 else dict(t[3]).get('comparator')
        order = dict(t[3]).get('order', t[2][2] if len(t[2]) > 2 else C(1))
        if cmpf == ('ref', 'numpy.greater') and order == C(1) and t[2][0] == X:
            ctx.passed(rid, fi, c1)
        else:
            ctx.violation(rid, fi, c1, 'search is %s' % show(t)[:90], expected=show(want[1]), found=show(t)[:90])
    nonempty = [e for e in exits if any(c[0] == 'cmp' and not truth for c, truth, _ in e.state.conds)]
    if not nonempty and exits and not any(e.state.conds for e in exits):
        nonempty = list(exits)      # no early return at all: X[locs] of no locations is the empty result anyway
    bad = None
    for e in nonempty:
        v = e.value
        # argrelextrema of a vector returns a 1-tuple: element -1 is element 0
        want_m1 = ('sub', want[1], C(-1))
        if not (v[0] == 'tuple' and len(v[1]) == 2 and v[1][0] in (want, want_m1) and v[1][1] in (('sub', X, want), ('sub', X, want_m1))):
            bad = show(v)[:100]
    # the early "nothing found" return is taken exactly when the search found no location
    import operator as _op
    OPS_ = {'==': _op.eq, '!=': _op.ne, '<': _op.lt, '<=': _op.le, '>': _op.gt, '>=': _op.ge}
    c3 = 'the empty result is returned exactly when the search finds no extremum'
    verdict3 = None
    for e in exits:
        v = e.value
        def _empty_arr(x):
            if x[0] != 'call' or not x[2]:
                return False
            if x[1] in ('numpy.array', 'numpy.asarray') and x[2][0] in (('list', ()), ('tuple', ())):
                return True
            return x[1] in ('numpy.empty', 'numpy.zeros') and x[2][0] in (C(0), ('tuple', (C(0),)), ('list', (C(0),)))
        empty_ret = v[0] == 'tuple' and len(v[1]) == 2 and all(_empty_arr(x) for x in v[1])
        for cd, tr, ln in e.state.conds:
            if cd[0] == 'cmp' and cd[1] in OPS_ and is_c(cd[3]) and isinstance(cd[3][1], int) and (
                    (cd[2][0] == 'call' and cd[2][1] == 'builtins.len' and cd[2][2] and cd[2][2][0] in (want, ('sub', want[1], C(-1))))
                    or (cd[2][0] == 'attr' and cd[2][2] == 'size' and cd[2][1] in (want, ('sub', want[1], C(-1))))):
                for n_ in (0, 1, 2, 3):
                    taken = OPS_[cd[1]](n_, cd[3][1]) == tr
                    if taken and empty_ret != (n_ == 0):
                        verdict3 = 'with %d extrema found the routine %s' % (n_, 'returns the empty result' if empty_ret
                                                                            else 'goes on although nothing was found')
                if verdict3 is None:
                    verdict3 = verdict3 or 'ok'
    if verdict3 and verdict3 != 'ok':
        ctx.violation(rid, fi, c3, verdict3)
    elif verdict3 == 'ok':
        ctx.passed(rid, fi, c3)
    if bad:
        ctx.violation(rid, fi, c2, 'default path returns %s' % bad)
    elif not nonempty:
        ctx.undecided(rid, fi, c2, 'no non-empty return path')
    else:
        ctx.passed(rid, fi, c2)


def _gpe_exits(ctx, mode, extra=None):
    P = ctx.P
    fi = P.func(GPE)
    context = {'mode': mode, 'loc_pad_opts': None, 'mag_pad_opts': None}
    context.update(extra or {})
    exits = Evaluator(P).run(fi, context=context)
    ctx.paths += len(exits)
    return fi, exits


def rule_conjugate(ctx, rid):
    P = ctx.P
    res = {}
    for mode in ('peaks', 'troughs', 'abs_peaks'):
        fi, exits = _gpe_exits(ctx, mode, {'pad_width': 0})
        vals = set()
        for e in exits:
            if e.kind == 'return' and e.value != ('tuple', (NONE, NONE)) and e.value[0] == 'tuple' \
                    and e.value[1][0][0] == 'sub' and e.value[1][0][1][0] == 'call' and e.value[1][0][1][1] == FE:
                vals.add(e.value)
        res[mode] = vals
    fi = P.func(GPE)

    def fe(sig, idx):
        return [t for t in ()]
    # normal form: replace the signal expression inside the _find_extrema call
    def norm(v):
        out = set()
        for t in v:
            calls = [x for x in subterms(t) if x[0] == 'call' and x[1] == FE]
            sigs = {dict(x[3]).get('X') for x in calls}
            out.add((t, frozenset(sigs)))
        return out
    pk = norm(res['peaks'])
    tr = norm(res['troughs'])
    ab = norm(res['abs_peaks'])
    c1 = 'troughs are peaks of the negated signal with re-negated magnitudes'
    ok = bool(pk) and bool(tr) and len(pk) == len(tr)
    why = ''
    for (tp, sp) in pk:
        matched = False
        for (tt, stt) in tr:
            for sig in sp:
                neg = ('un', '-', sig)
                cand = substitute(tp, {sig: neg})
                # magnitudes negated: tuple(locs, mags) -> (locs', -mags')
                if cand[0] == 'tuple' and tt[0] == 'tuple' and cand[1][0] == tt[1][0] \
                        and tt[1][1] == ('un', '-', cand[1][1]):
                    matched = True
        if not matched:
            ok = False
            why = 'trough branch returns %s' % '; '.join(show(t)[:90] for t, _ in tr)
    if ok:
        ctx.passed(rid, fi, c1, '%d return forms' % len(pk))
    else:
        ctx.violation(rid, fi, c1, why or 'peak/trough branches are not negation conjugates',
                      expected='(_find_extrema(-X)[0], -_find_extrema(-X)[1])')
    c2 = 'abs_peaks searches the rectified signal'
    okab = bool(ab)
    for (t, sigs) in ab:
        for sg in sigs:
            if not (sg[0] == 'call' and sg[1] in ('numpy.abs', 'numpy.absolute')):
                okab = False
    if okab:
        ctx.passed(rid, fi, c2)
    else:
        ctx.violation(rid, fi, c2, 'abs_peaks branch: %s' % '; '.join(show(t)[:80] for t, _ in ab))
    c3 = 'other modes raise'
    fi, exits = _gpe_exits(ctx, 'bogus')
    if exits and all(e.kind == 'raise' for e in exits):
        ctx.passed(rid, fi, c3)
    else:
        ctx.violation(rid, fi, c3, 'an undocumented mode does not raise')


def rule_padding(ctx, rid):
    P = ctx.P
    fi, exits = _gpe_exits(ctx, 'peaks')
    alg = mk_algebra()
    pads = []
    for e in exits:
        if e.kind != 'return' or e.value == ('tuple', (NONE, NONE)):
            continue
        for t in subterms(e.value):
            if t[0] == 'call' and t[1] == 'numpy.pad':
                pads.append(t)
    c1 = 'locations and magnitudes are padded with the same width'
    rets = [e for e in exits if e.kind == 'return' and e.value[0] == 'tuple' and e.value[1][0][0] == 'call'
            and e.value[1][0][1] == 'numpy.pad']
    bad = None
    n = 0
    for e in rets:
        lo, mg = e.value[1]
        if not (mg[0] == 'call' and mg[1] == 'numpy.pad'):
            bad = 'magnitudes are not padded: %s' % show(mg)[:60]
            continue

        def chain(t):
            ws = []
            while t[0] == 'call' and t[1] == 'numpy.pad':
                ws.append(t[2][1] if len(t[2]) > 1 else dict(t[3]).get('pad_width'))
                t = t[2][0]
            return ws, t
        wl, bl = chain(lo)
        wm, bm = chain(mg)
        n += 1
        if wl != wm:
            bad = 'locations padded by %s, magnitudes by %s' % ([show(w) for w in wl], [show(w) for w in wm])
        mode_l = lo[2][2] if len(lo[2]) > 2 else dict(lo[3]).get('mode')
        mode_m = mg[2][2] if len(mg[2]) > 2 else dict(mg[3]).get('mode')
        if mode_l != C('reflect') or dict(lo[3]).get('reflect_type') != C('odd'):
            bad = 'default location padding is %s %s' % (show(mode_l), dict(lo[3]))
        if mode_m != C('median') or dict(mg[3]).get('stat_length') != C(1):
            bad = 'default magnitude padding is %s' % show(mode_m)
    if bad:
        ctx.violation(rid, fi, c1, bad)
    elif n == 0:
        ctx.undecided(rid, fi, c1, 'no padded return found')
    else:
        ctx.passed(rid, fi, c1, '%d padded return forms; defaults reflect/odd and median/1' % n)
    # loop exit condition, read from the evaluated paths: the conditions that were decided on the locations which are
    # finally returned (works for `while C:` as well as for `while True: ... if D: break`)
    c2 = 're-padding stops exactly when both edges are covered: max >= N and min < 0'
    Xs = S(fi.params[0])
    n_ok = 0
    bad = None
    for e in exits:
        if e.kind != 'return' or e.value[0] != 'tuple' or not e.state.loops:
            continue
        L = e.value[1][0]
        if not (L[0] == 'call' and L[1] == 'numpy.pad'):
            continue
        on_L = [(c, truth) for c, truth, ln in e.state.conds if L in set(subterms(c))]
        if not on_L:
            bad = 'padded locations are returned without testing that they cover both edges'
            continue
        conj = ('and', tuple(c if truth else ('un', 'not', c) for c, truth in on_L))
        spec = ('and', (('cmp', '>=', ('call', 'builtins.max', (L,), ()), ('call', 'builtins.len', (Xs,), ())),
                        ('cmp', '<', ('call', 'builtins.min', (L,), ()), C(0))))
        # the number of samples read off any single column of X is len(X)
        from ..paths import substitute as _subst
        colmap = {}
        for t_ in subterms(conj):
            if t_[0] == 'call' and t_[1] == 'builtins.len' and len(t_[2]) == 1 and t_[2][0][0] == 'sub' and t_[2][0][1] == Xs \
                    and t_[2][0][2][0] == 'tuple' and len(t_[2][0][2][1]) == 2 and t_[2][0][2][1][0] == ('slice', NONE, NONE, NONE) \
                    and is_c(t_[2][0][2][1][1]) and t_[2][0][2][1][1][1] in (0, -1) \
                    and not isinstance(t_[2][0][2][1][1][1], bool):
                # (the 2-D form of the signal is [samples x 1]: column 0 and column -1 are that column, no other exists)
                colmap[t_] = ('call', 'builtins.len', (Xs,), ())
        # X.shape[0] is len(X) (also for the single column X[:, 0])
        for t_ in subterms(conj):
            if t_[0] == 'sub' and t_[2] == C(0) and t_[1][0] == 'attr' and t_[1][2] == 'shape':
                b_ = t_[1][1]
                if b_ == Xs or (b_[0] == 'sub' and b_[1] == Xs and b_[2][0] == 'tuple' and len(b_[2][1]) == 2
                                and b_[2][1][0] == ('slice', NONE, NONE, NONE) and b_[2][1][1] in (C(0), C(-1))):
                    colmap[t_] = ('call', 'builtins.len', (Xs,), ())
        if colmap:
            conj = _subst(conj, colmap)
        got, want = nnf(conj, alg), nnf(spec, alg)
        # X may have been sliced to 1-d first: len(X[:, 0]) == len(X)
        spec2 = ('and', (('cmp', '>=', ('call', 'builtins.max', (L,), ()),
                          ('call', 'builtins.len', (('sub', Xs, ('tuple', (('slice', NONE, NONE, NONE), C(0)))),), ())),
                         ('cmp', '<', ('call', 'builtins.min', (L,), ()), C(0))))
        if got in (want, nnf(spec2, alg)):
            n_ok += 1
        else:
            bad = 'padding stops when %s' % show_nnf(got)[:160].replace(alg.canon(L), 'L')
    if bad:
        ctx.violation(rid, fi, c2, bad, expected='max(L) >= len(X) and min(L) < 0')
    elif n_ok == 0:
        ctx.undecided(rid, fi, c2, 'no path returns re-padded locations')
    else:
        ctx.passed(rid, fi, c2, '%d exit states' % n_ok)
    loops = [n for n in walk_local(fi.node) if isinstance(n, ast.While)]
    # the padded arrays in the loop use the same width again: the pad chains of locations and magnitudes in every
    # returned pair were compared above (c1) including the states that went through the loop
    c3 = 'the re-padding loop pads both arrays with the same width and options'
    looped = [e for e in rets if e.state.loops]
    if not looped:
        ctx.undecided(rid, fi, c3, 'no return path through the re-padding loop')
    elif bad_loop(looped):
        ctx.violation(rid, fi, c3, bad_loop(looped))
    else:
        ctx.passed(rid, fi, c3, '%d return paths through the loop' % len(looped))


def bad_loop(rets):
    for e in rets:
        lo, mg = e.value[1]
        if not (lo[0] == 'call' and lo[1] == 'numpy.pad' and mg[0] == 'call' and mg[1] == 'numpy.pad'):
            return 'loop result is not a padded pair'
        wl = lo[2][1] if len(lo[2]) > 1 else None
        wm = mg[2][1] if len(mg[2]) > 1 else None
        if wl != wm:
            return 'loop pads locations by %s and magnitudes by %s' % (show(wl), show(wm))
    return None


# ----------------------------------------------------------------------------------------------
INT, INTF, REAL, UNK = 'int', 'intfloat', 'real', 'unknown'
_integ_memo = {}


def _join(a, b):
    order = [INT, INTF, REAL]
    if REAL in (a, b):
        return REAL          # a real-valued operand makes the result real-valued whatever the other one is
    if UNK in (a, b):
        return UNK
    return order[max(order.index(a), order.index(b))]


def integ(P, t, depth=0, atoms=None):
    """Integrality class of a term (D8)."""
    k = t[0]
    if k == 'c':
        if isinstance(t[1], bool):
            return INT
        if isinstance(t[1], int):
            return INT
        if isinstance(t[1], float):
            return INTF if t[1].is_integer() else REAL
        return UNK
    if k == 'sub':
        base = t[1]
        if base[0] == 'call' and base[1] in P.funcs and is_c(t[2]) and isinstance(t[2][1], int):
            return summary(P, base[1], t[2][1], depth, _const_context(base))
        if base[0] == 'tuple' and is_c(t[2]) and isinstance(t[2][1], int):
            return integ(P, base[1][t[2][1]], depth, atoms)
        if base[0] == 'call' and base[1] in ('scipy.signal.argrelextrema', 'numpy.where', 'numpy.nonzero'):
            return INT
        return integ(P, base, depth, atoms)
    if k == 'call':
        name = t[1]
        if name in ('numpy.ceil', 'numpy.floor', 'numpy.round', 'numpy.rint', 'numpy.trunc', 'numpy.fix'):
            return INTF
        if name in ('numpy.pad', 'numpy.array', 'numpy.asarray', 'numpy.sort', 'numpy.unique', 'numpy.r_') and t[2]:
            return integ(P, t[2][0], depth, atoms)
        if name == 'numpy.arange':
            # values are start + k*step: the stop does not influence their integrality
            a = t[2]
            if len(a) <= 1:
                return INT
            r = integ(P, a[0], depth, atoms)
            if len(a) >= 3:
                r = _join(r, integ(P, a[2], depth, atoms))
            return r
        if name in ('builtins.len', 'builtins.int', 'numpy.argmax', 'numpy.argmin', 'numpy.digitize'):
            return INT
        if name in ('builtins.max', 'builtins.min', 'numpy.max', 'numpy.min') and t[2]:
            return integ(P, t[2][0], depth, atoms)
        if name in ('builtins.float',):
            return _join(INTF, integ(P, t[2][0], depth, atoms)) if t[2] else UNK
        if name in P.funcs:
            return summary(P, name, None, depth, _const_context(t))
        return UNK
    if k == 'meth':
        if t[1] in ('astype',):
            a = t[3][0] if t[3] else None
            if a is not None and (a == ('ref', 'builtins.int') or (is_c(a) and a[1] == 'int')):
                return INT
            return integ(P, t[2], depth, atoms)
        if t[1] in ('copy', 'flatten', 'ravel', 'squeeze', 'max', 'min'):
            return integ(P, t[2], depth, atoms)
        if t[1] == 'dot':
            return _join(integ(P, t[2], depth, atoms), integ(P, t[3][0], depth, atoms)) if t[3] else UNK
        return UNK
    if k == 'bin':
        a, b = integ(P, t[2], depth, atoms), integ(P, t[3], depth, atoms)
        if t[1] in ('+', '-', '*'):
            return _join(a, b)
        if t[1] == '//':
            return _join(a, b)
        if t[1] == '/':
            return REAL           # a quotient is not integer-valued in general
        if t[1] == '**':
            return REAL if UNK not in (a, b) else UNK
        return UNK
    if k == 'un':
        return integ(P, t[2], depth, atoms)
    if k == 's' and atoms and t in atoms:
        return atoms[t]
    if k in ('tuple', 'list'):
        r = INT
        for x in t[1]:
            r = _join(r, integ(P, x, depth, atoms))
        return r
    if k == 'attr' and t[2] in ('size', 'ndim'):
        return INT
    if k == 'attr' and t[2] == 'T':
        return integ(P, t[1], depth, atoms)
    if k == 'ref':
        return REAL if t[1] in ('numpy.pi', 'numpy.e') else UNK
    if k == 's':
        return UNK
    return UNK


def _const_context(call):
    """Literal keyword arguments of a repo call (the callee is summarised under them).  With a ** carrier in
    the call the remaining formals are unknown, so only explicitly bound literals are used."""
    kw = dict(call[3])
    star = '**' in kw
    out = []
    for k, v in kw.items():
        if k == '**':
            continue
        if is_c(v) and isinstance(v[1], (bool, str, int, type(None))):
            if star and k not in ('mode',):
                continue        # a ** carrier may override nothing explicit, but defaults filled in are not explicit
            out.append((k, v[1]))
    return tuple(sorted(out, key=lambda x: x[0]))


def summary(P, q, index, depth, context=()):
    """Integrality of the (index-th element of the) value returned by repo function q over all its paths,
    under the literal arguments bound at the call, every other option symbolic."""
    _integ_memo = P.__dict__.setdefault('_integ_memo', {})     # per program: ids of dead programs are reused
    key = (q, index, context)
    if key in _integ_memo:
        return _integ_memo[key]
    if depth > 4:
        return UNK
    _integ_memo[key] = UNK
    fi = P.funcs[q]
    exits = Evaluator(P).run(fi, context={k: v for k, v in context if k in fi.all_formals()})
    r = None
    for e in exits:
        if e.kind != 'return':
            continue
        v = e.value
        if index is not None:
            if v[0] == 'tuple' and index < len(v[1]):
                v = v[1][index]
            else:
                v = ('sub', v, C(index))
        if is_c(v) and v[1] is None:
            continue
        if v[0] == 'call' and v[1] == 'numpy.array' and v[2] and v[2][0] == ('list', ()):
            continue
        # the signal parameter itself is data (real); locations come from searches
        atoms = _loop_atoms(P, e.state, depth + 1)
        i = integ(P, v, depth + 1, atoms)
        r = i if r is None else _join(r, i)
    _integ_memo[key] = r if r is not None else UNK
    return _integ_memo[key]


def _loop_atoms(P, st, depth):
    """Integrality of loop-carried variables: join of the value at loop entry and of the values assigned in the
    body (the variable itself standing for the class computed so far)."""
    atoms = {}
    for ls in st.loops:
        for name, head in ls.head_env.items():
            if head[0] == 's' and '@' in head[1] and name in ls.entry_env:
                cls = integ(P, ls.entry_env[name], depth, atoms)
                for _ in range(2):
                    atoms[head] = cls
                    for kind, b in ls.body_states:
                        if name in b.env:
                            cls = _join(cls, integ(P, b.env[name], depth, atoms))
                atoms[head] = cls
    return atoms


def rule_grid(ctx, rid):
    P = ctx.P
    fi = P.func(IE)
    c1 = 'interpolation abscissa is integer-valued for every option value (also with parabolic refinement)'
    c2 = 'the interpolant is evaluated on the same grid the in-range mask is computed on'
    c3 = 'in-range mask is {t >= 0, t < N}'
    c4 = 'an envelope whose length differs from the input raises'
    alg = mk_algebra()
    grids = set()
    masks = set()
    mismatch = []
    raised = False
    exits = Evaluator(P).run(fi, context={'interp_method': 'splrep', 'mode': 'upper', 'ret_extrema': False})
    ctx.paths += len(exits)
    for e in exits:
        if e.kind == 'raise':
            for c, truth, ln in e.state.conds:
                if truth and c[0] == 'cmp' and c[1] == '!=' and 'shape' in show(c):
                    raised = True
            continue
        if is_c(e.value) and e.value[1] is None:
            continue
        # env = np.array(splev(t, f)[tinds])
        v = e.value
        ev_calls = [t for t in subterms(v) if t[0] == 'call' and t[1] == 'scipy.interpolate.splev']
        for t in ev_calls:
            grids.add(t[2][0])
        for t in subterms(v):
            if t[0] == 'sub' and t[1] in ev_calls:
                masks.add(t[2])
                mg = {x for cpt in subterms(t[2]) if cpt[0] == 'cmp' for x in (cpt[2], cpt[3])
                      if x[0] == 'call' and x[1] == 'numpy.arange'}
                if mg != {t[1][2][0]}:
                    mismatch.append((show(t[1][2][0])[:60], [show(x)[:60] for x in mg]))
    if not grids:
        ctx.undecided(rid, fi, c1, 'no interpolant evaluation found')
        return
    worst = INT
    shown = next(iter(grids))
    for g in sorted(grids, key=lambda x: show(x)):
        gi = integ(P, g)
        if _join(worst, gi) != worst:
            shown = g
        worst = _join(worst, gi)
    if worst in (INT, INTF):
        ctx.passed(rid, fi, c1, 'grid %s is %s' % (show(next(iter(grids)))[:60], worst))
    elif worst == REAL:
        ctx.violation(rid, fi, c1,
                      'the evaluation grid %s starts at a padded extremum location, which is real-valued when '
                      'parabolic_extrema=True (compute_parabolic_extrema returns tp - 2 + locs): the envelope is then '
                      'sampled at non-integer times instead of at each sample index' % show(shown)[:70],
                      expected='integer-valued grid', found='real-valued grid')
    else:
        ctx.undecided(rid, fi, c1, 'cannot classify the integrality of %s' % show(next(iter(grids)))[:80])
    # same grid for mask
    okmask = True
    maskgrid = None
    spec = None
    for m in masks:
        cmps = [t for t in subterms(m) if t[0] == 'cmp']
        gs = set()
        for cpt in cmps:
            for side in (cpt[2], cpt[3]):
                if side[0] == 'call' and side[1] == 'numpy.arange':
                    gs.add(side)
        maskgrid = gs
        if len(gs) == 1:
            g = next(iter(gs))
            n = ('sub', ('attr', S(fi.params[0]), 'shape'), C(0))
            spec = ('and', (('cmp', '>=', g, C(0)), ('cmp', '<', g, n)))
            got = nnf(m, alg)
            want = nnf(spec, alg)
            if got == want:
                ctx.passed(rid, fi, c3, show_nnf(got)[:100])
            else:
                ctx.violation(rid, fi, c3, 'mask is %s' % show_nnf(got)[:140], expected=show_nnf(want)[:140])
    if not masks:
        ctx.undecided(rid, fi, c2, 'no in-range mask found')
    elif not mismatch:
        ctx.passed(rid, fi, c2)
    else:
        ctx.violation(rid, fi, c2, 'evaluation grid %s, mask grid %s' % mismatch[0])
    if raised:
        ctx.passed(rid, fi, c4)
    else:
        ctx.violation(rid, fi, c4, 'no raise on env.shape[0] != X.shape[0]')


def rule_methods(ctx, rid):
    P = ctx.P
    fi = P.func(IE)
    table = {'splrep': ('scipy.interpolate.splev', 'scipy.interpolate.splrep'),
             'mono_pchip': ('scipy.interpolate.PchipInterpolator', None),
             'pchip': ('scipy.interpolate.pchip', None)}
    grids = {}
    for meth, (evf, build) in table.items():
        exits = Evaluator(P).run(fi, context={'interp_method': meth, 'mode': 'upper', 'ret_extrema': True})
        ctx.paths += len(exits)
        c = "interp_method '%s' interpolates the padded extrema with %s" % (meth, evf.split('.')[-1])
        good = [e for e in exits if e.kind == 'return' and e.value[0] == 'tuple']
        if not good:
            ctx.violation(rid, fi, c, 'no envelope is returned for this method')
            continue
        bad = None
        for e in good:
            envt, ext = e.value[1]
            locs, pks = ext[1] if ext[0] == 'tuple' else (None, None)
            if meth == 'splrep':
                calls = [t for t in subterms(envt) if t[0] == 'call' and t[1] == evf]
                if not calls:
                    bad = 'no splev evaluation'
                    continue
                f = calls[0][2][1]
                if not (f[0] == 'call' and f[1] == build and f[2][:2] == (locs, pks)):
                    bad = 'spline is built from %s' % show(f)[:60]
                grids[meth] = calls[0][2][0]
            else:
                calls = [t for t in subterms(envt) if t[0] == 'callv' and t[1][0] == 'call' and t[1][1] == evf]
                if not calls:
                    bad = 'no %s evaluation' % evf.split('.')[-1]
                    continue
                f = calls[0][1]
                if f[2][:2] != (locs, pks):
                    bad = 'interpolant is built from %s' % show(f)[:60]
                grids[meth] = calls[0][2][0]
        if bad:
            ctx.violation(rid, fi, c, bad)
        else:
            ctx.passed(rid, fi, c)
    c = 'all methods are evaluated on the same grid'
    if len(grids) == 3 and len(set(grids.values())) == 1:
        ctx.passed(rid, fi, c)
    elif len(grids) == 3:
        ctx.violation(rid, fi, c, 'grids differ: %s' % {k: show(v)[:40] for k, v in grids.items()})
    exits = Evaluator(P).run(fi, context={'interp_method': 'bogus', 'mode': 'upper'})
    c = 'undocumented interp_method raises'
    if exits and all(e.kind == 'raise' for e in exits):
        ctx.passed(rid, fi, c)
    else:
        ctx.violation(rid, fi, c, 'an unknown interp_method does not raise')
    for mode, want in (('upper', 'peaks'), ('lower', 'troughs'), ('combined', 'abs_peaks')):
        exits = Evaluator(P).run(fi, context={'interp_method': 'splrep', 'mode': mode, 'ret_extrema': True})
        c = "envelope mode '%s' uses %s" % (mode, want)
        ok = False
        for e in exits:
            for t in subterms(e.value) if e.kind == 'return' else ():
                if t[0] == 'call' and t[1] == GPE:
                    ok = dict(t[3]).get('mode') == C(want)
        if ok:
            ctx.passed(rid, fi, c)
        else:
            ctx.violation(rid, fi, c, 'mode %s does not request %s' % (mode, want))


def rule_parabola(ctx, rid):
    P = ctx.P
    fi = P.func(CPE)
    alg = mk_algebra()
    # literal matrix: the array that is multiplied with y (w_inv.dot(y)), read from the evaluated term so that
    # `np.array([[1, -2, 1], ...]) / 2` and a named constant are read like the plain literal
    from fractions import Fraction

    def literal_matrix(t):
        scale = Fraction(1)
        while t[0] == 'bin' and t[1] in ('/', '*') and alg.poly(t[3]).is_const():
            k = alg.poly(t[3]).const_value()
            scale = scale / k if t[1] == '/' else scale * k
            t = t[2]
        if t[0] == 'call' and t[1] in ('numpy.array', 'numpy.asarray') and t[2] and t[2][0][0] in ('list', 'tuple'):
            rows = []
            for r in t[2][0][1]:
                if r[0] not in ('list', 'tuple'):
                    return None
                row = []
                for el in r[1]:
                    p_ = alg.poly(el)
                    row.append(p_.const_value() * scale if p_.is_const() else None)
                rows.append(row)
            return rows
        return None
    mat = None
    for e0 in Evaluator(P).run(fi):
        for x in subterms(e0.value) if e0.kind == 'return' else ():
            if x[0] == 'meth' and x[1] == 'dot':
                mat = literal_matrix(x[2]) or mat
            if x[0] == 'call' and x[1] in ('numpy.dot', 'numpy.matmul') and len(x[2]) == 2:
                mat = literal_matrix(x[2][0]) or mat
            if x[0] == 'bin' and x[1] == '@':
                mat = literal_matrix(x[2]) or mat
    c1 = 'w_inv is the exact inverse of the parabola design matrix [[1,1,1],[4,2,1],[9,3,1]]'
    W = [[1, 1, 1], [4, 2, 1], [9, 3, 1]]
    if mat is None or len(mat) != 3 or any(len(r) != 3 or None in r for r in mat):
        ctx.undecided(rid, fi, c1, 'cannot read the literal matrix')
    else:
        prod = [[sum(mat[i][k] * W[k][j] for k in range(3)) for j in range(3)] for i in range(3)]
        if prod == [[1, 0, 0], [0, 1, 0], [0, 0, 1]]:
            ctx.passed(rid, fi, c1)
        else:
            ctx.violation(rid, fi, c1, 'w_inv * W = %s' % [[str(x) for x in r] for r in prod])
    exits = [e for e in Evaluator(P).run(fi) if e.kind == 'return']
    c2 = 'vertex abscissa is -b/(2a) - 2 + location'
    c3 = 'vertex ordinate is c - b^2/(4a)'
    if len(exits) != 1 or exits[0].value[0] != 'tuple':
        ctx.undecided(rid, fi, c2, 'unexpected return')
        return
    t, y = exits[0].value[1]
    abc = None
    for x in subterms(t):
        if x[0] == 'meth' and x[1] == 'dot':
            abc = x
    if abc is None:
        ctx.undecided(rid, fi, c2, 'no w_inv.dot(y)')
        return

    def row(i):
        return ('sub', abc, ('tuple', (C(i), ('slice', NONE, NONE, NONE))))
    a, b, cc = row(0), row(1), row(2)
    want_t = ('bin', '+', ('bin', '-', ('bin', '/', ('un', '-', b), ('bin', '*', C(2), a)), C(2)), S(fi.params[1]))
    want_y = ('bin', '-', cc, ('bin', '/', ('bin', '**', b, C(2)), ('bin', '*', C(4), a)))
    if alg.poly(t) == alg.poly(want_t):
        ctx.passed(rid, fi, c2)
    else:
        ctx.violation(rid, fi, c2, 'abscissa is %s' % str(alg.poly(t))[:120], expected=str(alg.poly(want_t))[:120])
    if alg.poly(y) == alg.poly(want_y):
        ctx.passed(rid, fi, c3)
    else:
        ctx.violation(rid, fi, c3, 'ordinate is %s' % str(alg.poly(y))[:120], expected=str(alg.poly(want_y))[:120])
    # the three ordinates are X[loc-1], X[loc], X[loc+1]
    fe = P.func(FE)
    c4 = 'the parabola is fitted through the samples at loc-1, loc, loc+1'
    ex = [e for e in Evaluator(P).run(fe, context={'peak_prom_thresh': None, 'parabolic_extrema': True}) if e.kind == 'return']
    def seq(t):
        return list(t[1]) if t[0] in ('tuple', 'list') else None

    def rows_of(yv):
        """the three rows of the 3 x n ordinate matrix, for the stacking spellings numpy offers"""
        if yv[0] == 'call' and yv[1] == 'numpy.transpose' and len(yv[2]) == 1 and not yv[3]:
            yv = ('attr', yv[2][0], 'T')
        if yv[0] == 'meth' and yv[1] == 'transpose' and not yv[3] and not yv[4]:
            yv = ('attr', yv[2], 'T')
        if yv[0] == 'attr' and yv[2] == 'T':
            inner = yv[1]
            if inner[0] == 'sub' and inner[1] == ('ref', 'numpy.c_'):
                return seq(inner[2])
            if inner[0] == 'call' and inner[1] == 'numpy.column_stack' and len(inner[2]) == 1 and not inner[3]:
                return seq(inner[2][0])
            if inner[0] == 'call' and inner[1] == 'numpy.stack' and len(inner[2]) == 1 \
                    and dict(inner[3]) in ({'axis': C(1)}, {'axis': C(-1)}):
                return seq(inner[2][0])
            return None
        if yv[0] == 'call' and yv[1] in ('numpy.vstack', 'numpy.row_stack', 'numpy.array', 'numpy.asarray') \
                and len(yv[2]) == 1 and not yv[3]:
            return seq(yv[2][0])
        if yv[0] == 'call' and yv[1] == 'numpy.stack' and len(yv[2]) == 1 and dict(yv[3]) in ({}, {'axis': C(0)}):
            return seq(yv[2][0])
        return None
    ok = False
    unread = notx = None
    for e in ex:
        for x in subterms(e.value):
            if x[0] == 'call' and x[1] == CPE:
                yv = dict(x[3]).get('y')
                parts = rows_of(yv) if yv is not None else None
                if parts is None:
                    Xs = S(fe.params[0])
                    if yv is not None and not any(t_[0] == 'sub' and t_[1] == Xs for t_ in subterms(yv)):
                        notx = 'the ordinates handed to the parabola fit are %s, which holds no sample of X' % show(yv)[:60]
                        continue
                    unread = show(yv)[:80] if yv is not None else 'no ordinate argument'
                    continue
                X = S(fe.params[0])
                loc = dict(x[3]).get('locs')
                ok = len(parts) == 3 and all(pt[0] == 'sub' and pt[1] == X for pt in parts) and \
                    [alg.poly(pt[2]) - alg.poly(loc) for pt in parts] == [alg.poly(C(-1)), alg.poly(C(0)), alg.poly(C(1))]
    if ok:
        ctx.passed(rid, fe, c4)
    elif notx:
        ctx.violation(rid, fe, c4, notx)
    elif unread:
        ctx.undecided(rid, fe, c4, 'cannot read the ordinate matrix ' + unread)
    else:
        ctx.violation(rid, fe, c4, 'refinement is not fed with [X[l-1], X[l], X[l+1]]')


# ----------------------------------------------------------------------------------------------
def rule_pad_width(ctx, rid):
    """The number of extrema mirrored at each end is the caller's pad_width; the only documented change is lowering it
    to the number of extrema found when there are fewer.  Every np.pad call on every return path of
    get_padded_extrema is looked at: a width other than the parameter must be known, on that path, to be smaller."""
    P = ctx.P
    fi = P.func('emd.sift.get_padded_extrema')
    c = 'the pad width applied is the requested pad_width, lowered only when fewer extrema exist'
    PW = S('pad_width')
    bad = None
    n = 0
    for mode in ('peaks', 'troughs'):
        for e in Evaluator(P).run(fi, context={'mode': mode}):
            ctx.paths += 1
            if e.kind != 'return':
                continue
            terms = [e.value] + [v for v in e.state.env.values() if isinstance(v, tuple)]
            pads = [t for x in terms for t in subterms(x) if t[0] == 'call' and t[1] == 'numpy.pad']
            for t in pads:
                w = t[2][1] if len(t[2]) > 1 else dict(t[3]).get('pad_width')
                if w is None:
                    continue
                n += 1
                if w == PW:
                    continue
                if w[0] == 'call' and w[1] in ('builtins.min', 'numpy.minimum') and PW in w[2]:
                    continue            # min(pad_width, ...) never exceeds the request
                lower = False
                for cd, tr, ln in e.state.conds:
                    if cd[0] == 'cmp' and {cd[2], cd[3]} == {w, PW}:
                        op = cd[1] if cd[2] == w else {'<': '>', '<=': '>=', '>': '<', '>=': '<='}.get(cd[1], cd[1])
                        eff = op if tr else {'<': '>=', '<=': '>', '>': '<=', '>=': '<'}.get(op)
                        if eff in ('<', '<='):
                            lower = True
                if not lower:
                    bad = (e, 'np.pad is applied with a width of %s on a path that does not establish that it is smaller than the '
                           'requested pad_width: the caller\'s padding option is replaced' % show(w)[:60])
                    break
            if bad:
                break
        if bad:
            break
    if bad:
        ctx.violation(rid, fi, c, bad[1], node=bad[0].node)
    elif n == 0:
        ctx.undecided(rid, fi, c, 'no np.pad call found on a return path')
    else:
        ctx.passed(rid, fi, c, '%d np.pad call states' % n)
