"""L2 - every local name read in an analysed function is bound somewhere in that function (shared by all checks).

A deleted or renamed assignment leaves a read of a name that no statement of the function binds: the call raises
NameError / UnboundLocalError the first time the path is taken, whatever the property says about the result.  The
rules of a property evaluate terms and may never look at such a name (an undefined name evaluates to an opaque
symbol), so this is checked separately for every function the property's rules looked at."""
import ast
import builtins

from ..model import walk_local, unparse, AnalysisError


def _bound_names(fn):
    out = set()
    a = fn.args
    for x in list(a.posonlyargs) + list(a.args) + list(a.kwonlyargs):
        out.add(x.arg)
    if a.vararg:
        out.add(a.vararg.arg)
    if a.kwarg:
        out.add(a.kwarg.arg)
    for n in ast.walk(fn):
        if n is not fn and isinstance(n, (ast.FunctionDef, ast.AsyncFunctionDef, ast.ClassDef)):
            out.add(n.name)
        if n is not fn and isinstance(n, (ast.FunctionDef, ast.AsyncFunctionDef, ast.Lambda)):
            # names bound in a nested scope (over-approximation: visible to the whole function here)
            b = n.args
            for x in list(b.posonlyargs) + list(b.args) + list(b.kwonlyargs):
                out.add(x.arg)
            if b.vararg:
                out.add(b.vararg.arg)
            if b.kwarg:
                out.add(b.kwarg.arg)
        if isinstance(n, ast.Name) and isinstance(n.ctx, (ast.Store, ast.Del)):
            out.add(n.id)
        elif isinstance(n, (ast.Import, ast.ImportFrom)):
            for al in n.names:
                out.add((al.asname or al.name).split('.')[0])
        elif isinstance(n, ast.ExceptHandler) and n.name:
            out.add(n.name)
        elif isinstance(n, (ast.Global, ast.Nonlocal)):
            out.update(n.names)
    return out


def rule_unbound(ctx, rid='L2'):
    P = ctx.P
    done = 0
    for q in sorted(ctx.functions):
        fi = P.funcs.get(q)
        if fi is None:
            continue
        bound = _bound_names(fi.node)
        f = fi
        while f.parent is not None:
            f = f.parent
            bound |= _bound_names(f.node)
        mod = fi.module
        modnames = set(mod.assigns) | set(mod.imports) | {n.split('.')[0] for n in mod.functions} | set(mod.classes) \
            if hasattr(mod, 'classes') else set(mod.assigns) | set(mod.imports) | {n.split('.')[0] for n in mod.functions}
        for n in ast.walk(mod.tree):
            if isinstance(n, ast.ClassDef):
                modnames.add(n.name)
            elif isinstance(n, (ast.Import, ast.ImportFrom)) and n in mod.tree.body:
                for al in n.names:
                    modnames.add((al.asname or al.name).split('.')[0])
        for n in mod.tree.body:
            for x in ast.walk(n) if isinstance(n, (ast.Assign, ast.AugAssign, ast.AnnAssign, ast.For, ast.With, ast.Try,
                                                 ast.If)) else ():
                if isinstance(x, ast.Name) and isinstance(x.ctx, ast.Store):
                    modnames.add(x.id)
        unbound = []
        for n in ast.walk(fi.node):
            if isinstance(n, ast.Name) and isinstance(n.ctx, ast.Load):
                if n.id in bound or n.id in modnames or hasattr(builtins, n.id):
                    continue
                unbound.append(n)
        done += 1
        if unbound:
            n0 = unbound[0]
            ctx.violation(rid, fi, 'every name read is bound in the function',
                          'the name `%s` is read on line %d but no statement of %s (or its module) binds it: the call '
                          'raises NameError when this line is reached' % (n0.id, n0.lineno, fi.name), node=n0)
    ctx.cover['l2_functions_checked'] = done
    if done:
        ctx.passed(rid, P.funcs[next(q for q in sorted(ctx.functions) if q in P.funcs)],
                   'every name read is bound in the function', '%d analysed function(s)' % done)


# ----------------------------------------------------------------------------------------------
CACHE_DECORATORS = {'functools.lru_cache', 'functools.cache', 'functools.cached_property', 'lru_cache', 'cache'}
IMMUTABLE_CALLS = {'float', 'int', 'bool', 'str', 'len', 'tuple', 'frozenset', 'complex', 'round'}


def _returns_immutable(fn):
    """All return expressions are literals / tuples of literals / conversions to immutable scalars."""
    def imm(e):
        if isinstance(e, ast.Constant):
            return True
        if isinstance(e, ast.Tuple):
            return all(imm(x) for x in e.elts)
        if isinstance(e, ast.Call) and isinstance(e.func, ast.Name) and e.func.id in IMMUTABLE_CALLS:
            return True
        if isinstance(e, (ast.Compare, ast.BoolOp)):
            return True
        return False
    rets = [n for n in ast.walk(fn) if isinstance(n, ast.Return) and n.value is not None]
    return bool(rets) and all(imm(r.value) for r in rets)


def rule_memoised(ctx, rid='L3'):
    """No function the property's rules looked at - nor anything they call inside the package - hands out objects from
    a memo table.  A cached array / dict is one object shared by every call: an in-place scaling of it, or an edit
    by the caller who received it, changes the result of every later call with the same arguments (results then
    depend on history, which every property here excludes)."""
    P = ctx.P
    cg = P.callgraph()
    seen = set()
    todo = [q for q in ctx.functions if q in P.funcs]
    while todo:
        q = todo.pop()
        if q in seen:
            continue
        seen.add(q)
        for y in cg.get(q, ()):
            if y in P.funcs and y not in seen:
                todo.append(y)
    n = 0
    for q in sorted(seen):
        fi = P.funcs[q]
        for dec in fi.node.decorator_list:
            d = dec.func if isinstance(dec, ast.Call) else dec
            dotted = P.resolve(fi.module, d, None) or (d.id if isinstance(d, ast.Name) else ast.unparse(d))
            if dotted in CACHE_DECORATORS or dotted.split('.')[-1] in ('lru_cache', 'cache', 'cached_property', 'memoize'):
                n += 1
                if _returns_immutable(fi.node):
                    continue
                ctx.violation(rid, fi, 'results are not handed out from a memo table',
                              '%s is wrapped in %s and returns a mutable object (array / dict / list): every call with '
                              'the same arguments receives the same object, so an in-place change by the library or by '
                              'the caller leaks into later calls' % (fi.name, dotted), node=dec)
    ctx.cover['l3_functions_checked'] = len(seen)
    ctx.cover['l3_memoised_functions'] = n
    if seen:
        ctx.passed(rid, P.funcs[sorted(seen)[0]], 'results are not handed out from a memo table',
                   '%d reachable function(s), %d memoised with immutable results' % (len(seen), n))


# ----------------------------------------------------------------------------------------------
# L4: parameters of library routines that must be integers receive integer-valued expressions
INT_PARAMS = {
    'numpy.round': ((1, 'decimals'),), 'numpy.around': ((1, 'decimals'),), 'numpy.round_': ((1, 'decimals'),),
    'builtins.round': ((1, 'ndigits'),),
    'builtins.range': ((0, None), (1, None), (2, None)),
    'numpy.zeros': ((0, 'shape'),), 'numpy.ones': ((0, 'shape'),), 'numpy.empty': ((0, 'shape'),),
    'numpy.linspace': ((2, 'num'),), 'numpy.repeat': ((1, 'repeats'),),
}


def rule_int_params(ctx, rid='L4'):
    """A quotient or a multiple of pi where numpy / Python insists on an integer (`np.round(x, decimals)`, `range`,
    array shapes, `linspace(num)`, `repeat(repeats)`) raises TypeError whenever the call is reached - also when the
    call only feeds a log message."""
    from ..paths import Evaluator, State, show
    from .c05 import integ, REAL
    P = ctx.P
    n = 0
    first = None
    for q in sorted(ctx.functions):
        fi = P.funcs.get(q)
        if fi is None:
            continue
        for call in ast.walk(fi.node):
            if not isinstance(call, ast.Call):
                continue
            try:
                d = P.resolve_callee(fi.module, fi, call.func).dotted
            except Exception:
                d = None
            spec = INT_PARAMS.get(d)
            if not spec:
                continue
            for pos, kwname in spec:
                node = None
                if pos < len(call.args) and not any(isinstance(a, ast.Starred) for a in call.args[:pos + 1]):
                    node = call.args[pos]
                for kw in call.keywords:
                    if kwname and kw.arg == kwname:
                        node = kw.value
                if node is None:
                    continue
                n += 1
                try:
                    outs = Evaluator(P)._ev(node, State(), fi.module, fi, 0)
                    t = outs[0][0]
                    cls = integ(P, t)
                except Exception:
                    continue
                if cls == REAL:
                    first = first or fi
                    ctx.violation(rid, fi, 'integer-only library parameters receive integer-valued expressions',
                                  '%s(...) needs an integer for its %s but gets %s (a quotient / real-valued expression): '
                                  'TypeError whenever this call is reached'
                                  % (d.replace('numpy.', 'np.').replace('builtins.', ''),
                                     kwname or 'argument %d' % (pos + 1), show(t)[:70]), node=node)
    ctx.cover['l4_integer_parameter_sites'] = n
    if n:
        fi0 = P.funcs[next(q for q in sorted(ctx.functions) if q in P.funcs)]
        ctx.passed(rid, fi0, 'integer-only library parameters receive integer-valued expressions', '%d site(s)' % n)


# ----------------------------------------------------------------------------------------------
# L5: results must not depend on the memory layout of an input, index arithmetic must not be narrowed
NARROW_INTS = {'uint8', 'int8', 'uint16', 'int16', 'float16', 'ubyte', 'byte', 'ushort', 'short', 'half'}
ORDER_CALLS = {'ravel', 'flatten', 'reshape', 'copy', 'astype', 'tobytes', 'tostring'}


def _order_arg(call):
    """the `order` argument of a flattening / reshaping call as a python value, or None"""
    for k in call.keywords:
        if k.arg == 'order' and isinstance(k.value, ast.Constant):
            return k.value.value
    f = call.func
    name = f.attr if isinstance(f, ast.Attribute) else (f.id if isinstance(f, ast.Name) else '')
    if name in ('ravel', 'flatten') and isinstance(f, ast.Attribute) and len(call.args) == 1 \
            and isinstance(call.args[0], ast.Constant) and isinstance(call.args[0].value, str):
        return call.args[0].value           # x.ravel('K')
    return None


def rule_layout(ctx, rid, quals, narrow=True, what='the spectrum'):
    """No flattening / reshaping in memory order ('K', 'A', 'F') of an array argument - the result would differ between
    a C-ordered array and the same values held transposed or Fortran-ordered - and (narrow=True) no cast of index
    arrays to 8 / 16 bit integers, whose arithmetic wraps silently."""
    P = ctx.P
    n = 0
    for q in quals:
        fi = P.funcs.get(q)
        if fi is None:
            continue
        n += 1
        c = 'the result does not depend on the memory layout of the arrays (no memory-order flattening)'
        bad = None
        for node in walk_local(fi.node):
            if isinstance(node, ast.Call):
                f = node.func
                name = f.attr if isinstance(f, ast.Attribute) else (f.id if isinstance(f, ast.Name) else '')
                if name in ('ravel', 'flatten', 'reshape') or name == 'nditer':
                    o = _order_arg(node)
                    if o is not None and str(o).upper() in ('K', 'A', 'F'):
                        bad = (node, "`%s` flattens / reshapes in memory order (order=%r): for a transposed or "
                               "Fortran-ordered argument the elements come out in a different sequence than the index "
                               "arrays built in C order" % (unparse(node)[:60], o))
        if bad:
            ctx.violation(rid, fi, c, bad[1], node=bad[0])
        else:
            ctx.passed(rid, fi, c)
        if not narrow:
            continue
        c2 = 'index arrays keep a full-width integer type (no cast to 8 / 16 bit, whose arithmetic wraps silently)'
        bad = None
        for node in walk_local(fi.node):
            ty = None
            if isinstance(node, ast.Call):
                f = node.func
                name = f.attr if isinstance(f, ast.Attribute) else ''
                cand = []
                if name == 'astype' and node.args:
                    cand.append(node.args[0])
                cand += [k.value for k in node.keywords if k.arg == 'dtype']
                for a in cand:
                    t = a.attr if isinstance(a, ast.Attribute) else (a.value if isinstance(a, ast.Constant) and isinstance(a.value, str) else
                                                                     (a.id if isinstance(a, ast.Name) else None))
                    if t in NARROW_INTS:
                        ty = t
            if ty:
                bad = (node, '`%s` narrows an array to %s: bin / cell indices and their products wrap modulo 2**%s without '
                       'an error once the number of cells exceeds it' % (unparse(node)[:60], ty, '16' if '16' in ty or ty in ('ushort', 'short', 'half') else '8'))
        if bad:
            ctx.violation(rid, fi, c2, bad[1], node=bad[0])
        else:
            ctx.passed(rid, fi, c2)
    if n == 0:
        raise AnalysisError('L5: none of the functions %s found' % (list(quals),))


# ----------------------------------------------------------------------------------------------
# L6: arithmetic in place on an array that carries the caller's dtype
def rule_inplace_input_dtype(ctx, rid, quals):
    """`acc = X.copy(); ...; acc -= component` updates an array of the CALLER's dtype in place: with an integer signal
    numpy refuses the cast (or truncates), with a float32 signal every update is rounded to single precision, so the
    running quantity is no longer the documented expression of the inputs.  The out-of-place form `acc = acc - c`
    promotes to float64.  Reported for augmented assignments whose target was bound to a formal parameter or to a plain
    copy of one."""
    P = ctx.P
    n = 0
    for q in quals:
        fi = P.funcs.get(q)
        if fi is None:
            continue
        n += 1
        formals = set(fi.all_formals())
        carriers = {}
        for node in walk_local(fi.node):
            if isinstance(node, ast.Assign) and len(node.targets) == 1 and isinstance(node.targets[0], ast.Name):
                v = node.value
                src = None
                if isinstance(v, ast.Name) and v.id in formals:
                    src = v.id
                elif isinstance(v, ast.Call) and isinstance(v.func, ast.Attribute) and v.func.attr == 'copy' \
                        and isinstance(v.func.value, ast.Name) and v.func.value.id in formals and not v.args:
                    src = v.func.value.id
                elif isinstance(v, ast.Call) and isinstance(v.func, ast.Attribute) and v.func.attr in ('copy', 'array') \
                        and isinstance(v.func.value, ast.Name) and v.func.value.id in ('np', 'numpy') and v.args \
                        and isinstance(v.args[0], ast.Name) and v.args[0].id in formals \
                        and not any(k.arg == 'dtype' for k in v.keywords):
                    src = v.args[0].id
                if src is not None:
                    carriers[node.targets[0].id] = src
        c = 'running arrays derived from an input are updated out of place (no in-place arithmetic in the caller\'s dtype)'
        bad = None
        for node in walk_local(fi.node):
            if isinstance(node, ast.AugAssign) and isinstance(node.target, ast.Name) and node.target.id in carriers \
                    and isinstance(node.op, (ast.Sub, ast.Add, ast.Mult, ast.Div)) \
                    and not isinstance(node.value, ast.Constant):
                bad = (node, '`%s` updates a copy of the argument %s in place, in that argument\'s dtype: an integer signal '
                       'cannot take the float update, a float32 signal is rounded at every step (the out-of-place form '
                       'promotes to float64)' % (unparse(node)[:60], carriers[node.target.id]))
        if bad:
            ctx.violation(rid, fi, c, bad[1], node=bad[0])
        else:
            ctx.passed(rid, fi, c)
        # computed quantities are not cast back to the dtype of an argument (`np.array(v, dtype=X.dtype)`,
        # `v.astype(X.dtype)`): for an integer signal the envelope / noise / component is truncated to whole numbers
        c2 = 'computed arrays are not cast to the dtype of an input array'
        bad = None

        def input_dtype(a):
            """the argument whose dtype the expression `a` denotes (X.dtype, np.asarray(X).dtype, np.result_type(*X)), or None"""
            if isinstance(a, ast.IfExp):
                return input_dtype(a.body) or input_dtype(a.orelse)
            if isinstance(a, ast.Attribute) and a.attr == 'dtype':
                for x in ast.walk(a.value):
                    if isinstance(x, ast.Name) and (x.id in formals or x.id in carriers):
                        return x.id
            if isinstance(a, ast.Call) and isinstance(a.func, ast.Attribute) and a.func.attr in ('result_type', 'promote_types', 'common_type'):
                for x in ast.walk(a):
                    if isinstance(x, ast.Name) and (x.id in formals or x.id in carriers):
                        return x.id
            return None
        dtype_vars = {}
        for node in walk_local(fi.node):
            if isinstance(node, ast.Assign) and len(node.targets) == 1 and isinstance(node.targets[0], ast.Name):
                src_ = input_dtype(node.value)
                if src_ is not None:
                    dtype_vars[node.targets[0].id] = src_
        for node in walk_local(fi.node):
            if not isinstance(node, ast.Call):
                continue
            cand = [k.value for k in node.keywords if k.arg == 'dtype']
            if isinstance(node.func, ast.Attribute) and node.func.attr == 'astype' and node.args:
                cand.append(node.args[0])
            for a in cand:
                src_ = input_dtype(a) or (dtype_vars.get(a.id) if isinstance(a, ast.Name) else None)
                if src_ is not None:
                    bad = (node, '`%s` gives a computed quantity the dtype of %s: with integer input the values are '
                           'truncated (and float32 input loses precision) without any error' % (unparse(node)[:60], src_))
        if bad:
            ctx.violation(rid, fi, c2, bad[1], node=bad[0])
        else:
            ctx.passed(rid, fi, c2)
    if n == 0:
        raise AnalysisError('L6: none of the functions %s found' % (list(quals),))
