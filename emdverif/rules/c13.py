"""C13 - good cycles are exactly those meeting the documented phase criteria."""
import ast
import math

from ..model import AnalysisError, unparse, walk_local
from ..paths import Evaluator, is_c, show, C, S, NONE, subterms, State
from ..boolnorm import nnf, show_nnf
from .common import mk_algebra, trace_tail
from . import cyclevec
from .c06 import _decode_fref

PROPERTY = 'C13'
EXPLANATION = (
    "R1: the test guarding each entry of the check vector of is_good is put in boolean/comparison normal form and "
    "compared with the documented criterion (strictly increasing phase; start within [phi_min, phi_min+edge]; end "
    "within [2pi-edge, 2pi]; control points only when a waveform is given). R2: in get_cycle_vector a segment is "
    "labelled only under all(checks) where checks are is_good of exactly the slice that gets labelled with the "
    "caller's phase_edge, the mask veto (any sample false -> skip) precedes the criteria, and return_good=False "
    "substitutes an all-true vector - so good cycles are a renumbered subset of the C12 partition. R3: every "
    "tolerance the cycle container accepts reaches the criteria function it stores per cycle. "
    "Depends on C12.R1 for 'the slice looked at is the whole wrap-to-wrap segment'.")
RULE_TEXT = "one obligation per criterion / acceptance clause / forwarded parameter"
FLOORS = {'C13.R1': 4, 'C13.R2': 3, 'C13.R3': 1}
PINNED_EXPECT = [('C13.R3', 'emd.cycles.Cycles.__init__', 'phase_edge')]

IS_GOOD = 'emd.cycles.is_good'


def run(ctx):
    ctx.rule(rule_criteria, 'C13.R1')
    ctx.rule(rule_acceptance, 'C13.R2')
    ctx.rule(rule_forwarding, 'C13.R3')
    # the container's per-cycle flag is computed over the slices of the slice cache: their boundaries must be the
    # cycle boundaries (a short last slice drops the sample that meets the end-edge criterion)
    from . import c15
    ctx.rule(c15.rule_cache, 'C13.R4')
    # the segments the criteria are applied to are the wrap-delimited ones (default threshold 1.5 pi), taken from
    # canonicalised phase and mask that are compared on the sample axis
    from . import c12, c19, cyclevec
    ctx.rule(c12.rule_unfiltered, 'C13.R5', cyclevec.get(ctx, False, False))
    ctx.rule(c12.rule_canonical_inputs, 'C13.R5')
    ctx.rule(c19.rule_ensure_sites, 'C13.R5', only={cyclevec.GCV})
    # the container's flag is a per-cycle statistic of is_good: the statistic must be the function applied to the
    # samples of each cycle, also for a one-sample cycle
    from . import c14
    ctx.rule(c14.rule_stat, 'C13.R6')


def rule_criteria(ctx, rid):
    P = ctx.P
    fi = P.func(IS_GOOD)
    ev = Evaluator(P)
    exits = ev.run(fi, context={'mode': 'cycle', 'waveform': None, 'ret_all_checks': True})
    ctx.paths += len(exits)
    rets = [e for e in exits if e.kind == 'return']
    if not rets:
        raise AnalysisError('is_good has no return path')
    st = rets[0].state
    alg = mk_algebra()
    # the If statements that set an entry of the check vector to True
    vec = None
    for n in walk_local(fi.node):
        if isinstance(n, ast.Return) and isinstance(n.value, ast.Name):
            vec = n.value.id
    guards = {}
    # sites inside `if waveform is not None:` are not reachable from the cycle labelling or the container (neither
    # passes a waveform); the criteria are read on the waveform-free paths, like the evaluated returns below
    dead = set()
    for n in walk_local(fi.node):
        if isinstance(n, ast.If) and isinstance(n.test, ast.Compare) and len(n.test.ops) == 1 \
                and isinstance(n.test.left, ast.Name) and n.test.left.id == 'waveform' \
                and isinstance(n.test.comparators[0], ast.Constant) and n.test.comparators[0].value is None:
            branch = n.body if isinstance(n.test.ops[0], ast.IsNot) else (n.orelse if isinstance(n.test.ops[0], ast.Is) else [])
            for st_ in branch:
                for x in ast.walk(st_):
                    dead.add(id(x))
    for n in walk_local(fi.node):
        if isinstance(n, ast.If) and id(n) not in dead:
            for s in n.body:
                if isinstance(s, ast.Assign) and isinstance(s.targets[0], ast.Subscript) \
                        and isinstance(s.targets[0].value, ast.Name) and s.targets[0].value.id == vec \
                        and isinstance(s.targets[0].slice, ast.Constant) and isinstance(s.value, ast.Constant) \
                        and s.value.value is True:
                    guards.setdefault(s.targets[0].slice.value, []).append(n)
    ph = S(fi.params[0])
    edge = S('phase_edge')
    twopi = ('bin', '*', C(2), ('ref', 'numpy.pi'))
    spec = {
        0: ('call', 'numpy.all', (('cmp', '>', ('call', 'numpy.diff', (ph,), ()), C(0)),), ()),
        1: ('and', (('cmp', '>=', ('sub', ph, C(0)), C(0)),
                    ('cmp', '<=', ('sub', ph, C(0)), ('bin', '+', C(0), edge)))),
        2: ('and', (('cmp', '<=', ('sub', ph, C(-1)), twopi),
                    ('cmp', '>=', ('sub', ph, C(-1)), ('bin', '-', twopi, edge)))),
    }
    names = {0: 'phase strictly increasing', 1: 'start within [0, phase_edge]', 2: 'end within [2pi - phase_edge, 2pi]'}
    # slot values on the evaluated paths: a check may also be written as a direct assignment of a boolean expression
    def unbool(t):
        while t[0] == 'call' and t[1] in ('builtins.bool', 'numpy.bool_') and len(t[2]) == 1:
            t = t[2][0]
        return t

    def slots(e):
        t = e.value
        vals = {}
        # the check vector written as one literal: np.array([c0, c1, c2, c3], dtype=bool)
        if t[0] == 'call' and t[1] in ('numpy.array', 'numpy.asarray') and t[2] and t[2][0][0] in ('list', 'tuple'):
            return {i: unbool(x) for i, x in enumerate(t[2][0][1])}
        while t[0] == 'setitem':
            if is_c(t[2]) and t[2][1] not in vals:
                vals[t[2][1]] = unbool(t[3])
            t = t[1]
        return vals
    direct = {}
    for k in (0, 1, 2):
        vs = {slots(e).get(k, C(False)) for e in rets}
        if len(vs) == 1 and not is_c(next(iter(vs))):
            direct[k] = next(iter(vs))
    for k in (0, 1, 2):
        c = 'check %d: %s' % (k, names[k])
        gs = guards.get(k, [])
        if k in direct:
            t = direct[k]
            node = fi.node
        elif len(gs) == 1:
            test = gs[0].test
            outs = ev._ev(test, st.copy(), fi.module, fi, 0)
            t = outs[0][0]
            node = gs[0]
        else:
            ctx.undecided(rid, fi, c, 'cannot read how check %d is decided (%d guarded sites, no single direct '
                          'assignment)' % (k, len(gs)))
            continue
        gs = [node]
        got = nnf(t, alg)
        want = nnf(spec[k], alg)
        if got == want:
            ctx.passed(rid, fi, c, show_nnf(got)[:160], node=gs[0])
        else:
            ctx.violation(rid, fi, c, 'criterion differs from the documented one', node=gs[0],
                          expected=show_nnf(want)[:200], found=show_nnf(got)[:200])
    # check 3: true when no waveform is given
    ok3 = False
    for e in rets:
        vals = slots(e)
        if vals.get(3) == C(True):
            ok3 = True
        else:
            ok3 = False
            break
    c = 'check 3: control points are only required when a waveform is given'
    if ok3:
        ctx.passed(rid, fi, c)
    else:
        ctx.violation(rid, fi, c, 'without a waveform the fourth check is not set true on every path')
    # initial vector all False, 4 entries; overall result is np.all
    ev2 = Evaluator(P)
    ex2 = [e for e in ev2.run(fi, context={'mode': 'cycle', 'waveform': None, 'ret_all_checks': False})
           if e.kind == 'return']
    bad = [e for e in ex2 if not (e.value[0] == 'call' and e.value[1] in ('numpy.all', 'builtins.all'))]
    c = 'scalar verdict is the conjunction of all checks'
    if bad or not ex2:
        ctx.violation(rid, fi, c, 'is_good(...) returns %s' % (show(bad[0].value)[:60] if bad else 'nothing'))
    else:
        ctx.passed(rid, fi, c)


def rule_acceptance(ctx, rid):
    P = ctx.P
    from .c12 import _segments
    # (a) return_good=True, mask given
    A = cyclevec.get(ctx, True, True)
    fi = A.fi
    segs = _segments(A)
    n = 0
    bad = None
    for b, ls, bt, stores, skip in segs:
        for idx, val, bb in stores:
            n += 1
            sl = idx[1][0] if idx[0] == 'tuple' else idx
            col = idx[1][1] if idx[0] == 'tuple' and len(idx[1]) > 1 else None
            conds = bb.conds
            # acceptance: all(is_good(phase[slice, col], ret_all_checks=True, phase_edge=phase_edge)) True
            acc = None
            veto = None
            order = []
            for c, truth, lnn in conds:
                if c[0] == 'call' and c[1] in ('builtins.all', 'numpy.all') and len(c[2]) == 1 \
                        and c[2][0][0] == 'call' and c[2][0][1] == IS_GOOD:
                    acc = (c, truth)
                    order.append('acc')
                if c[0] == 'call' and c[1] in ('builtins.any', 'numpy.any') and len(c[2]) == 1:
                    inner = c[2][0]
                    if inner[0] == 'un' and inner[1] == '~' and inner[2][0] == 'sub' \
                            and inner[2][1] in (S('mask'), bb.env.get('mask')):
                        veto = (c, truth, inner[2][2])
                        order.append('veto')
            if acc is None or acc[1] is not True:
                bad = (bb, 'a segment is labelled without all(is_good(...)) being true')
                continue
            kw = dict(acc[0][2][0][3])
            want_phase = ('sub', None, ('tuple', (sl, col)))
            pt = kw.get('phase')
            # X[:, c][s] is X[s, c]
            if pt is not None and pt[0] == 'sub' and pt[1][0] == 'sub' and pt[1][2][0] == 'tuple' \
                    and len(pt[1][2][1]) == 2 and pt[1][2][1][0][0] == 'slice' \
                    and all(is_c(x) and x[1] is None for x in pt[1][2][1][0][1:4]) and pt[2][0] != 'tuple':
                pt = ('sub', pt[1][1], ('tuple', (pt[2], pt[1][2][1][1])))
            if not (pt is not None and pt[0] == 'sub' and pt[2] == ('tuple', (sl, col))):
                bad = (bb, 'criteria are evaluated on %s, not on the labelled slice %s' % (show(pt)[:50], show(sl)[:40]))
            if kw.get('phase_edge') != S('phase_edge'):
                bad = (bb, 'criteria do not receive the caller\'s phase_edge: %s' % show(kw.get('phase_edge', NONE))[:30])
            if kw.get('ret_all_checks') != C(True) and acc[0][1] != 'numpy.all':
                pass
            if veto is None or veto[1] is not False:
                bad = (bb, 'a segment is labelled although the validity mask was not consulted (or vetoed)')
            else:
                msl = veto[2][1][0] if veto[2][0] == 'tuple' else veto[2]
                if msl != sl:
                    bad = (bb, 'mask veto looks at %s, not at the labelled slice' % show(msl)[:50])
                if order and order[0] != 'veto':
                    bad = (bb, 'mask veto is applied after the criteria')
    c = 'return_good=True, mask given: labelled <=> mask all true on the slice and all(is_good(slice, phase_edge))'
    if bad:
        ctx.violation(rid, fi, c, bad[1], node=A.col.node, path=trace_tail(bad[0], 10))
    elif n == 0:
        ctx.undecided(rid, fi, c, 'no labelling state found')
    else:
        ctx.passed(rid, fi, c, '%d labelling states' % n, node=A.col.node)
    # (b) acceptance uses the whole check vector: `all(checks)` - not any / a sub-vector
    A2 = cyclevec.get(ctx, True, False)
    bad = None
    n = 0
    for b, ls, bt, stores, skip in _segments(A2):
        for idx, val, bb in stores:
            n += 1
            ok = any(truth and c[0] == 'call' and c[1] in ('builtins.all', 'numpy.all') and c[2][0][0] == 'call'
                     and c[2][0][1] == IS_GOOD and dict(c[2][0][3]).get('ret_all_checks') == C(True)
                     for c, truth, lnn in bb.conds)
            if not ok:
                bad = bb
    c = 'return_good=True: acceptance is all() over the full check vector'
    if bad is not None:
        ctx.violation(rid, fi, c, 'a segment is labelled under a weaker test than all(checks)', node=A2.col.node,
                      path=trace_tail(bad, 8))
    elif n == 0:
        ctx.undecided(rid, fi, c, 'no labelling state found')
    else:
        ctx.passed(rid, fi, c, '%d labelling states' % n)
    # (c) return_good=False: an all-true vector replaces the criteria
    A3 = cyclevec.get(ctx, False, False)
    n = 0
    bad = None
    for b, ls, bt, stores, skip in _segments(A3):
        for idx, val, bb in stores:
            n += 1
            for c, truth, lnn in bb.conds:
                if c[0] == 'call' and c[1] in ('builtins.all', 'numpy.all'):
                    inner = c[2][0]
                    if not (inner[0] == 'call' and inner[1] == 'numpy.ones'):
                        bad = (bb, 'with return_good=False acceptance still depends on %s' % show(inner)[:50])
        # and no segment may be skipped other than through that vector
        for kind, bb in ls.body_states:
            stored = any(e[0] == 'setitem' and e[5] == A3.out_name for e in bb.effects if ls.var in set(subterms(e[2])))
            if not stored:
                for c, truth, lnn in bb.conds:
                    if c[0] == 'call' and c[1] in ('builtins.all', 'numpy.all') and c[2][0][0] == 'call' \
                            and c[2][0][1] == 'numpy.ones':
                        continue
    c = 'return_good=False: every segment is accepted (all-true check vector)'
    if bad:
        ctx.violation(rid, fi, c, bad[1], node=A3.col.node)
    elif n == 0:
        ctx.undecided(rid, fi, c, 'no labelling state found')
    else:
        ctx.passed(rid, fi, c, '%d labelling states' % n)


def rule_forwarding(ctx, rid):
    """Cycles.__init__(phase_edge=...) must reach the criteria function stored per cycle."""
    P = ctx.P
    fi = P.func('emd.cycles.Cycles.__init__')
    # sibling defaults: the criteria function, the labelling routine and the container use one default tolerance
    from .common import mk_algebra
    from ..paths import State
    alg = mk_algebra()
    polys = {}
    for q in (IS_GOOD, 'emd.cycles.get_cycle_vector', 'emd.cycles.Cycles.__init__'):
        f2 = P.func(q)
        d = f2.defaults.get('phase_edge')
        if d is None:
            continue
        try:
            polys[q] = (alg.poly(Evaluator(P)._ev(d, State(), f2.module, f2, 0)[0][0]), unparse(d), f2)
        except Exception:
            polys[q] = (None, unparse(d), f2)
    c = 'is_good, get_cycle_vector and the container share one default edge tolerance'
    if IS_GOOD in polys:
        ref = polys[IS_GOOD]
        for q, (pl, txt, f2) in polys.items():
            if q == IS_GOOD:
                continue
            if pl is None or ref[0] is None:
                ctx.undecided(rid, f2, c, 'default %s not a closed form' % txt)
            elif pl != ref[0]:
                ctx.violation(rid, f2, c, 'default phase_edge is %s here and %s in is_good: with default arguments the '
                              'quality flag / good-cycle labelling uses a different tolerance from the documented criteria'
                              % (txt, ref[1]))
            else:
                ctx.passed(rid, f2, c)
    params = [p for p in ('phase_edge',) if p in fi.all_formals()]
    recs = []

    def hook(ca, bound, star, st, e):
        if ca.dotted == 'emd.cycles.Cycles.compute_cycle_metric':
            recs.append((bound, dict(st.env), e))
        return None
    ev = Evaluator(P, callee_hook=hook)
    ev.run(fi)
    target = None
    for bound, env, node in recs:
        f = bound.get('func')
        if f is None:
            continue
        d = _decode_fref(P, f)
        lam = f[0] == 'lambda' and 'is_good' in f[1]
        if (d is not None and d[0] == IS_GOOD) or lam:
            target = (bound, env, node, d, f)
    # the flag uses the SAME criteria as the labelling routine: apart from the tolerance, every criteria parameter
    # bound in the stored function keeps is_good's own default (the container's `mode` selects how cycles are cut
    # for the metrics, not which phase window the documented criteria use)
    if target is not None:
        bound, env, node, d, f = target
        isg = P.func(IS_GOOD)
        c = 'stored criteria function binds no criteria parameter other than the tolerance away from its default'
        extra = []
        if d is not None:
            for k, v in sorted(d[2].items()):
                if k in params:
                    continue
                dn = isg.defaults.get(k)
                same = dn is not None and is_c(v) and isinstance(dn, ast.Constant) and dn.value == v[1] \
                    and type(dn.value) is type(v[1])
                if not same:
                    extra.append('%s=%s' % (k, show(v)[:40]))
            if len(d[1]) > 1:
                extra.append('%d positional argument(s) after the phase' % (len(d[1]) - 1))
        elif f[0] == 'lambda':
            try:
                for cnode in ast.walk(ast.parse(f[1], mode='eval').body):
                    if isinstance(cnode, ast.Call) and unparse(cnode.func).split('.')[-1] == 'is_good':
                        for k in cnode.keywords:
                            dn = isg.defaults.get(k.arg)
                            if k.arg in params or k.arg is None:
                                continue
                            if not (isinstance(k.value, ast.Constant) and isinstance(dn, ast.Constant)
                                    and dn.value == k.value.value and type(dn.value) is type(k.value.value)):
                                extra.append('%s=%s' % (k.arg, unparse(k.value)[:40]))
            except SyntaxError:
                pass
        if extra:
            ctx.violation(rid, fi, c, 'the per-cycle quality flag is computed with %s: it then follows other criteria '
                          'than the good-cycle labelling (which calls is_good with the tolerance only)'
                          % ', '.join(extra), node=node, found=show(f)[:80])
        else:
            ctx.passed(rid, fi, c, node=node)
    for p in params:
        c = 'container parameter %s reaches the per-cycle criteria' % p
        if target is None:
            ctx.undecided(rid, fi, c, 'cannot find the per-cycle is_good metric computation')
            continue
        bound, env, node, d, f = target
        ok = False
        if d is not None:
            v = d[2].get(p)
            if v is not None and (v == S(p) or v == env.get('self.' + p)):
                ok = True
        elif f[0] == 'lambda':
            try:
                lt = ast.parse(f[1], mode='eval').body
                for cnode in ast.walk(lt):
                    if isinstance(cnode, ast.Call):
                        for k in cnode.keywords:
                            if k.arg == p and p in unparse(k.value):
                                ok = True
            except SyntaxError:
                pass
        if ok:
            ctx.passed(rid, fi, c, 'bound in the stored criteria function', node=node)
        else:
            ctx.violation(rid, fi, c,
                          'the container accepts %s but computes its per-cycle quality flag with is_good\'s default '
                          '(%s is not bound in the function handed to compute_cycle_metric)' % (p, p),
                          node=node, expected='partial(is_good, %s=%s)' % (p, p), found=show(f)[:60])
