"""C12 - cycle detection partitions the phase series at its phase wraps."""
import ast

from ..model import AnalysisError, unparse, walk_local
from ..paths import State, Evaluator, is_c, show, C, S, NONE, subterms
from .common import trace_tail, mk_algebra
from . import cyclevec
from .cyclevec import Aff

PROPERTY = 'C12'
EXPLANATION = (
    "get_cycle_vector is evaluated along all paths (return_good x mask contexts); the boundary list handed to the "
    "segment loop is decoded to  [prefix] ++ W ++ [suffix]  with W = where(|diff(phase)| > step)[0] + k, whose "
    "elements are strictly increasing integers in [k, N-2+k] (affine forms over N = number of samples). "
    "R1 cover: on every feasible path (path conditions decided with those ranges) the first boundary is 0, the last "
    "is N, consecutive boundaries are consumed as half-open slices B[j]:B[j+1] for all j, and every slice is "
    "non-empty (last wrap < last boundary) - so the labelled segments partition [0, N). R2: W is used unfiltered with "
    "the strict comparison against phase_step. R3: the label is a per-column counter starting at 0, incremented "
    "exactly on the paths that label a segment; other samples keep the -1 fill. R4: a wrap-free column leaves the "
    "loop before any indexing.")
RULE_TEXT = "one obligation per rule clause and (return_good, mask) context; distinct = distinct keys"
FLOORS = {'C12.R1': 4, 'C12.R2': 1, 'C12.R3': 2, 'C12.R4': 1}
PINNED_EXPECT = [('C12.R1', 'emd.cycles.get_cycle_vector', 'last boundary'),
                 ('C12.R1', 'emd.cycles.get_cycle_vector', 'non-empty')]


def run(ctx):
    ctx.trust('np.where(cond)[0] is strictly increasing with entries in [0, len(cond)-1]; np.diff of a length-N vector '
              'has N-1 entries; np.r_ concatenates scalars and vectors in order')
    try:
        A = cyclevec.get(ctx, False, False)
    except AnalysisError as err:
        # no per-column segment loop on the all-cycles path: a vectorised labelling?  Decide the one natural form
        # (labels = running count of wraps); anything else stays an analysis error
        if 'no loop over the phase columns' in str(err) and rule_vectorised_labelling(ctx, 'C12.R1'):
            return
        raise
    ctx.rule(rule_cover, 'C12.R1', A, 'return_good=False, mask=None')
    ctx.rule(rule_unfiltered, 'C12.R2', A)
    ctx.rule(rule_labelling, 'C12.R3', A, 'return_good=False')
    ctx.rule(rule_wrapfree, 'C12.R4', A)
    # detection never fails: the filter applied to every segment when only good cycles are requested is the documented
    # total predicate (np.all over the differences is defined for a one-sample segment, a .min() over them is not),
    # and the phase is canonicalised by ensure_2d (a vector is one column; rows are never re-read as samples)
    from . import c13, c19
    ctx.rule(c13.rule_criteria, 'C12.R5')
    ctx.rule(c19.rule_shape_classes, 'C12.R6', names=('ensure_2d',))
    ctx.rule(c19.rule_layout_only, 'C12.R6', names=('ensure_2d',))
    ctx.rule(c19.rule_ensure_sites, 'C12.R6', only={cyclevec.GCV})
    ctx.rule(rule_canonical_inputs, 'C12.R6')
    ctx.rule(c19.rule_equal_dims_semantics, 'C12.R6')
    if ctx.tier == 'thorough':
        for rg, mk in ((True, False), (True, True), (False, True)):
            A2 = cyclevec.get(ctx, rg, mk)
            tag = 'return_good=%s, mask=%s' % (rg, 'given' if mk else None)
            ctx.rule(rule_cover, 'C12.R1', A2, tag)
            ctx.rule(rule_labelling, 'C12.R3', A2, tag)


def _segments(A):
    """[(col-body state, inner loop summary, boundary term, [(store idx, value, state)])]"""
    out = []
    for b, ls in A.inner:
        it = ls.iter_term
        bt = None
        skip = 0
        if it[0] == 'call' and it[1] == 'builtins.range' and len(it[2]) == 1:
            n = it[2][0]
            # len(B) - c : c == 1 visits every pair of consecutive boundaries
            if n[0] == 'bin' and n[1] == '-' and is_c(n[3]) and n[2][0] == 'call' and n[2][1] == 'builtins.len':
                bt = n[2][2][0]
                skip = n[3][1] - 1
        stores = []
        for kind, bb in ls.body_states:
            for eff in bb.effects:
                if eff[0] == 'setitem' and eff[5] == A.out_name and ls.var in set(subterms(eff[2])):
                    stores.append((eff[2], eff[3], bb))
        out.append((b, ls, bt, stores, skip))
    return out


def _decide(A, cond, truth, core, natom):
    """Is path condition (cond, truth) always-true / always-false / contingent given W's range?"""
    if cond[0] != 'cmp' or cond[1] not in ('<', '<=', '>', '>=', '==', '!='):
        return None
    op, a, b = cond[1], cond[2], cond[3]

    def rng(t):
        # W[0] / W[-1] -> [k, N-2+k]
        if t[0] == 'sub' and is_c(t[2]) and t[2][1] in (0, -1):
            parts = A.decode_boundaries(t[1])
            el = parts[0] if t[2][1] == 0 else parts[-1]
            wc = A.wrap_core(el)
            if wc is not None and wc['where'] == core['where']:
                return Aff(wc['k'], 0), Aff(wc['k'] - 2, 1)
            if len(parts) > 1:
                f = A.aff(el, natom)
                if f is not None:
                    return f, f
        f = A.aff(t, natom)
        if f is not None:
            return f, f
        return None
    ra, rb = rng(a), rng(b)
    if ra is None or rb is None:
        return None

    def le(x, y):          # x <= y for all N >= 2 ?
        d = y - x
        return d.b == 0 and d.a >= 0 or (d.b > 0 and d.a + 2 * d.b >= 0)

    def lt(x, y):
        d = y - x
        return d.b == 0 and d.a > 0 or (d.b > 0 and d.a + 2 * d.b > 0)
    always = None
    if op == '>=':
        always = True if le(rb[1], ra[0]) else (False if lt(ra[1], rb[0]) else None)
    elif op == '>':
        always = True if lt(rb[1], ra[0]) else (False if le(ra[1], rb[0]) else None)
    elif op == '<=':
        always = True if le(ra[1], rb[0]) else (False if lt(rb[1], ra[0]) else None)
    elif op == '<':
        always = True if lt(ra[1], rb[0]) else (False if le(rb[1], ra[0]) else None)
    return always


def rule_cover(ctx, rid, A, tag):
    fi = A.fi
    segs = _segments(A)
    if not segs:
        raise AnalysisError('%s: no segment loop found' % fi.qualname)
    feasible = 0
    problems = {'first': None, 'last': None, 'nonempty': None, 'slices': None}
    seen = {'first': 0, 'last': 0, 'nonempty': 0, 'slices': 0}
    for b, ls, bt, stores, skip in segs:
        if skip:
            problems['slices'] = (b, 'the segment loop stops %d segment(s) before the last boundary pair' % skip)
        if bt is None:
            problems['slices'] = (b, 'segment loop does not run over range(len(boundaries) - 1): %s'
                                  % show(ls.iter_term)[:80])
            continue
        parts = A.decode_boundaries(bt)
        cores = [(i, A.wrap_core(p)) for i, p in enumerate(parts) if A.wrap_core(p) is not None]
        if len(cores) != 1:
            problems['slices'] = (b, 'cannot find the wrap positions in the boundary list')
            continue
        ci, core = cores[0]
        sig = core['signal']
        # N = length of the differenced column = phase.shape[0]
        phase_t = sig[1] if sig[0] == 'sub' else sig
        natom = A.n_atom(phase_t)
        # path feasibility
        ok = True
        for c, truth, ln in b.conds:
            d = _decide(A, c, truth, core, natom)
            if d is not None and d != truth:
                ok = False
        if not ok:
            continue
        feasible += 1
        k = core['k']
        lo, hi = Aff(k, 0), Aff(k - 2, 1)
        pre, post = parts[:ci], parts[ci + 1:]
        # first boundary == 0
        seen['first'] += 1
        if pre:
            f0 = A.aff(pre[0], natom)
            if f0 is None or f0.const() != 0:
                problems['first'] = (b, 'first boundary is %s' % show(pre[0])[:40])
            for x, y in zip(pre, pre[1:] + [None]):
                pass
            fl = A.aff(pre[-1], natom)
            if fl is None or not (fl.b == 0 and fl.a < lo.a):
                problems['nonempty'] = (b, 'leading boundary %s is not below the first possible wrap %s' % (fl, lo))
        else:
            if lo.a != 0:
                problems['first'] = (b, 'no leading boundary on a feasible path: samples before the first wrap '
                                     '(position >= %s) are never labelled' % lo)
        # last boundary == N, and > every wrap
        seen['last'] += 1
        seen['nonempty'] += 1
        if post:
            fN = A.aff(post[-1], natom)
            if fN is None or not (fN.a == 0 and fN.b == 1):
                problems['last'] = (b, 'last boundary is %s, expected N (phase.shape[0]): the final %s sample(s) of '
                                    'the recording are never labelled'
                                    % (fN if fN is not None else show(post[-1])[:40],
                                       (-fN.a if fN is not None and fN.b == 1 else '?')))
            f1 = A.aff(post[0], natom)
            d = (f1 - hi) if f1 is not None else None
            if d is None or not (d.b == 0 and d.a >= 1):
                problems['nonempty'] = (b, 'the last wrap can be at %s and the terminal boundary is %s: the final '
                                        'segment can be empty (criteria then index an empty array)' % (hi, f1))
        else:
            problems['last'] = (b, 'no terminal boundary on a feasible path: samples after the last wrap are never '
                                'labelled')
        # slices consumed: B[j]:B[j+1]
        seen['slices'] += 1
        if not stores:
            problems['slices'] = (b, 'no labelling store in the segment loop')
        for idx, val, bb in stores:
            want = ('slice', ('sub', bt, ls.var), ('sub', bt, ('bin', '+', ls.var, C(1))), NONE)
            sl = idx[1][0] if idx[0] == 'tuple' else idx
            if sl != want:
                problems['slices'] = (bb, 'segment store uses %s instead of B[j]:B[j+1]' % show(sl)[:80])
    names = {'first': 'first boundary is sample 0',
             'last': 'last boundary is N (one past the final sample)',
             'nonempty': 'every segment is non-empty (boundaries strictly increasing)',
             'slices': 'consecutive boundaries are consumed as half-open slices B[j]:B[j+1]'}
    if feasible == 0:
        ctx.undecided(rid, fi, '%s: cover' % tag, 'no feasible path reaches the segment loop')
        return
    for key, text in names.items():
        c = '%s: %s' % (tag, text)
        if problems[key]:
            st, why = problems[key]
            ctx.violation(rid, fi, c, why, node=A.col.node, path=trace_tail(st, 8))
        else:
            ctx.passed(rid, fi, c, '%d feasible boundary path(s)' % feasible, node=A.col.node)


def rule_unfiltered(ctx, rid, A):
    fi = A.fi
    segs = _segments(A)
    bad = None
    n = 0
    for b, ls, bt, stores, skip in segs:
        if bt is None:
            continue
        parts = A.decode_boundaries(bt)
        cores = [A.wrap_core(p) for p in parts if A.wrap_core(p) is not None]
        for core in cores:
            n += 1
            if core['op'] != '>':
                bad = 'wraps are detected with |diff| %s step (documented: strictly greater)' % core['op']
            if core['step'] != S('phase_step'):
                bad = 'wrap threshold is %s, not phase_step' % show(core['step'])[:40]
            if core['k'] != 1:
                bad = 'a wrap between samples i and i+1 starts the new segment at i+%d (expected i+1)' % core['k']
            sig = core['signal']
            if not (sig[0] == 'sub' and sig[2][0] == 'tuple' and len(sig[2][1]) == 2 and sig[2][1][1] == A.col.var):
                bad = 'wraps are not taken from the current phase column: %s' % show(sig)[:60]
        extra = [p for p in parts if A.wrap_core(p) is None and A.aff(p, ('s', '?')) is None
                 and not _is_affine_N(A, p)]
        if extra:
            bad = 'boundary list contains something other than 0, the wraps and N: %s' % show(extra[0])[:60]
    c = 'every wrap (|diff(phase)| > phase_step) is a boundary, nothing else is'
    if bad:
        ctx.violation(rid, fi, c, bad, node=A.col.node)
    elif n == 0:
        ctx.undecided(rid, fi, c, 'no wrap detection found')
    else:
        ctx.passed(rid, fi, c, '%d boundary forms' % n, node=A.col.node)
    # the default threshold is the documented 1.5 pi (a wrap is a jump of ~2 pi; genuine phase steps stay below pi)
    c = 'default wrap threshold is 1.5 * pi'
    d = fi.defaults.get('phase_step')
    alg = mk_algebra()
    ok = False
    if d is not None:
        try:
            t = Evaluator(A.P)._ev(d, State(), fi.module, fi, 0)[0][0]
            ok = alg.poly(t) == alg.poly(('bin', '*', C(1.5), ('ref', 'numpy.pi')))
        except Exception:
            ok = False
    if ok:
        ctx.passed(rid, fi, c)
    else:
        ctx.violation(rid, fi, c, 'the default of phase_step is %s' % (unparse(d)[:40] if d is not None else 'missing'),
                      expected='1.5 * np.pi')
    # the cycle container detects cycles with the same default threshold (sibling defaults agree)
    try:
        f2 = A.P.func('emd.cycles.Cycles.__init__')
    except Exception:
        f2 = None
    if f2 is not None and 'phase_step' in f2.defaults:
        c = 'the cycle container has the same default wrap threshold'
        d2 = f2.defaults['phase_step']
        try:
            t2 = Evaluator(A.P)._ev(d2, State(), f2.module, f2, 0)[0][0]
            ok2 = alg.poly(t2) == alg.poly(('bin', '*', C(1.5), ('ref', 'numpy.pi')))
        except Exception:
            ok2 = False
        if ok2:
            ctx.passed(rid, f2, c)
        else:
            ctx.violation(rid, f2, c, 'Cycles(phase_step=%s) by default, get_cycle_vector uses 1.5 * pi: the container '
                          'partitions the same phase differently from the documented labelling' % unparse(d2)[:40],
                          expected='1.5 * np.pi')


def _is_affine_N(A, p):
    from .cyclevec import _norm_len
    for t in subterms(p):
        if t[0] == 'sub' and t[1][0] == 'attr' and t[1][2] == 'shape':
            n = _norm_len(t) or t
            if A.aff(p, n) is not None or A.aff(p, t) is not None:
                return True
        if t[0] == 'call' and t[1] == 'builtins.len':
            n = _norm_len(t)
            if n is not None and A.aff(p, _norm_len(n) or n) is not None:
                return True
    return A.aff(p, ('s', '?')) is not None


def rule_labelling(ctx, rid, A, tag):
    fi = A.fi
    alg = A.alg
    segs = _segments(A)
    bad = None
    n = 0
    for b, ls, bt, stores, skip in segs:
        # counter: the value stored
        for idx, val, bb in stores:
            n += 1
            if val[0] != 's' or '@F' not in val[1]:
                bad = (bb, 'label written is %s, not the running counter' % show(val)[:40])
                continue
            cname = val[1].split('@')[0]
            after = bb.env.get(cname)
            if alg.poly(after) - alg.poly(val) != alg.poly(C(1)):
                bad = (bb, 'counter is not incremented by one after labelling a segment: %s' % show(after)[:40])
            # initial value at inner-loop entry
            init = ls.entry_env.get(cname)
            if init != C(0):
                bad = (b, 'label counter starts at %s for a column, expected 0' % show(init)[:30])
        for kind, bb in ls.body_states:
            stored = any(e[0] == 'setitem' and e[5] == A.out_name and ls.var in set(subterms(e[2]))
                         for e in bb.effects)
            if not stored:
                for idx, val, _ in stores[:1]:
                    cname = val[1].split('@')[0] if val[0] == 's' else None
                    if cname and bb.env.get(cname) != val:
                        bad = (bb, 'counter changes on a path that labels nothing')
    c = '%s: labels are a per-column running counter from 0, incremented exactly when a segment is labelled' % tag
    if bad:
        ctx.violation(rid, fi, c, bad[1], node=A.col.node, path=trace_tail(bad[0], 8))
    elif n == 0:
        ctx.undecided(rid, fi, c, 'no labelling store found')
    else:
        ctx.passed(rid, fi, c, '%d labelling states' % n, node=A.col.node)
    # fill value -1
    init = None
    for n2 in walk_local(fi.node):
        if isinstance(n2, ast.Assign) and any(isinstance(t, ast.Name) and t.id == A.out_name for t in n2.targets):
            init = n2.value
            break
    c2 = '%s: unlabelled samples keep the -1 fill' % tag
    txt = unparse(init) if init is not None else ''
    ok = init is not None and ('zeros_like' in txt or 'zeros(' in txt) and txt.replace(' ', '').endswith('-1') \
        or ('full' in txt and '-1' in txt) or ('ones' in txt and txt.replace(' ', '').startswith('-'))
    if ok:
        ctx.passed(rid, fi, c2, txt[:60])
    else:
        ctx.violation(rid, fi, c2, 'label array is initialised with `%s`' % txt[:60], node=init)


def rule_wrapfree(ctx, rid, A):
    fi = A.fi
    c = 'a column without wraps is skipped before any boundary is indexed'
    hit = None
    for kind, b in A.col.body_states:
        for i, (cnd, truth, ln) in enumerate(b.conds):
            if truth and cnd[0] == 'cmp' and cnd[1] == '==' and cnd[3] == C(0) and cnd[2][0] == 'call' \
                    and cnd[2][1] == 'builtins.len':
                # nothing may follow on this path
                later = b.conds[i + 1:]
                stores = [e for e in b.effects if e[0] == 'setitem']
                hit = (b, later, stores)
    if hit is None:
        ctx.violation(rid, fi, c, 'no early exit for a wrap-free column: the first/last boundary are then indexed on '
                      'an empty array', node=A.col.node)
    elif hit[1] or hit[2]:
        ctx.violation(rid, fi, c, 'the wrap-free path continues into the boundary handling', node=A.col.node)
    else:
        ctx.passed(rid, fi, c, node=A.col.node)


def rule_canonical_inputs(ctx, rid):
    """The phase is canonicalised by ensure_2d on every path; with a mask, the mask too, and the two are compared on
    the sample axis only (dim=0: a mask has one column, the phase one per IMF)."""
    from .common import dim_checks
    P = ctx.P
    fi = P.func(cyclevec.GCV)
    for mask_given in (False, True):
        tag = 'mask given' if mask_given else 'no mask'
        context = {'return_good': False}
        if not mask_given:
            context['mask'] = None
        per_path = dim_checks(P, fi, context)
        if mask_given:
            per_path = [calls for calls in per_path if any('mask' in nm for f, nm, d in calls)] or \
                [calls for calls in per_path]
            per_path = [calls for calls in per_path]
        c = '%s: phase goes through ensure_2d' % tag
        if per_path and all(any(f == 'ensure_2d' and 'phase' in nm for f, nm, d in calls) for calls in per_path):
            ctx.passed(rid, fi, c, '%d path(s)' % len(per_path))
        else:
            ctx.violation(rid, fi, c, 'a path uses the phase without canonicalising it (a vector must become one column)')
    # mask paths: evaluated with a not-None mask
    st = State()
    st.notnone.add(S('mask'))
    exits = [e for e in Evaluator(P).run(fi, context={'return_good': False}, state=st) if e.kind == 'return']
    ok2d = okdim = bool(exits)
    for e in exits:
        terms = [eff[1] for eff in e.state.effects if eff[0] == 'expr'] + [v for v in e.state.env.values()
                                                                            if isinstance(v, tuple)]
        found2d = founddim = False
        for t in terms:
            for x in subterms(t):
                if x[0] == 'call' and x[1] == 'emd.support.ensure_2d' and S('mask') in set(subterms(dict(x[3]).get('to_check', C(0)))):
                    found2d = True
                if x[0] == 'call' and x[1] == 'emd.support.ensure_equal_dims':
                    kw = dict(x[3])
                    tc = kw.get('to_check', C(0))
                    if kw.get('dim') == C(0) and len(tc[1]) == 2 if tc[0] in ('tuple', 'list') else False:
                        founddim = True
        ok2d = ok2d and found2d
        okdim = okdim and founddim
    c = 'mask given: the mask goes through ensure_2d'
    (ctx.passed if ok2d else ctx.violation)(rid, fi, c, '' if ok2d else 'the mask is used without canonicalisation')
    c = 'mask given: phase and mask are compared on the sample axis (dim=0)'
    (ctx.passed if okdim else ctx.violation)(rid, fi, c, '' if okdim else
                                              'phase (one column per IMF) and mask (one column) are not compared on '
                                              'dim=0: a valid mask is rejected, or a short one accepted')


def rule_vectorised_labelling(ctx, rid):
    """All-cycles labelling written as `labels[1:] = cumsum(wraps, axis=0)`: every column is labelled by its own
    running wrap count, which is right for a column with wraps - a column without any wrap must stay -1 (no cycle),
    so the assignment needs a per-column restriction.  Returns True when a verdict was given."""
    P = ctx.P
    fi = P.func(cyclevec.GCV)
    exits = [e for e in Evaluator(P).run(fi, context={'return_good': False, 'mask': None}) if e.kind == 'return']
    c = 'return_good=False, mask=None: a column without wraps is labelled -1 throughout'
    for e in exits:
        v = e.value
        sets = []
        while v[0] == 'setitem':
            sets.append((v[2], v[3]))
            v = v[1]
        cums = [(idx, val) for idx, val in sets if val[0] == 'call' and val[1] == 'numpy.cumsum'
                and dict(val[3]).get('axis') == C(0)]
        if not cums:
            continue
        idx, val = cums[0]
        J = val[2][0]
        whole = idx[0] == 'tuple' and len(idx[1]) == 2 and idx[1][1][0] == 'slice' \
            and all(x == C(None) for x in idx[1][1][1:4])
        # is any later store restricted to the wrap-free columns, or is the guard column-wise?
        fixed = any(i2[0] == 'tuple' and len(i2[1]) == 2 and i2[1][1][0] != 'slice' and v2 == C(-1)
                    for i2, v2 in sets)
        glob = [cd for cd, tr, ln in e.state.conds if tr and cd[0] in ('meth', 'call')
                and (cd[1] in ('any', 'numpy.any')) and 'axis' not in dict(cd[4] if cd[0] == 'meth' else cd[3])]
        if whole and not fixed:
            ctx.violation(rid, fi, c, 'the labels of every column are written at once (%s = cumsum of the wraps%s): a '
                          'wrap-free column next to a column with wraps is labelled 0 instead of -1'
                          % (show(idx)[:30], ', guarded by a test over all columns' if glob else ''),
                          node=e.node, expected='-1 for every sample of a column without wraps')
            return True
    return False
