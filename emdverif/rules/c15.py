"""C15 - the cycle container keeps metrics, subsets and chains coherent (partly)."""
import ast

from ..model import AnalysisError, unparse, walk_local
from ..paths import Evaluator, is_c, show, C, S, NONE, subterms, substitute
from .common import mk_algebra, trace_tail
from . import cyclevec

PROPERTY = 'C15'
EXPLANATION = (
    "R1 comparator table: _parse_condition is evaluated along all its paths and the path conditions are folded for "
    "every operator in {==, !=, <=, >=, <, >} x literal prefix in {digit, '-', '.'}: exactly one path is selected and "
    "it returns the numpy ufunc of that operator; the literal is what remains after stripping comparator characters "
    "only. R2: get_matching_cycles fills one column per condition with func(metric, value) (metric on the left) and "
    "returns the conjunction over conditions. R3 counters: get_subset_vector writes -1 for false and a running "
    "counter for true; get_chain_vector keeps the chain for an index gap of 1, opens a new one for a gap > 1, first "
    "element chain 0. R4 metric store: every store into the metric dict is behind a raising length guard or has "
    "cycle-level provenance. R5 cache precondition: the slice cache is only built from get_cycle_vector("
    "return_good=False, no mask), which C12.R1 proves gap-free, and the cache's own boundaries are [0] ++ (label "
    "increments) ++ [N]. R7 sibling agreement: the label route (map_cycle_to_samples_augmented) and the slice-cache "
    "route (augment_slice) delimit the augmented cycle by the same range and return None under the same condition. "
    "R8: a possibly-None extent never indexes the value vectors unguarded (x[None] is the whole recording). "
    "R9 dispatch: compute_cycle_metric stores, per mode x cache state, the matching support routine on (vals, the "
    "object's own labels or the cache known to be present, func=func); compute_chain_metric stores the per-chain "
    "statistic on the own chain/subset/label vectors projected onto cycles, NaN recoded to -1 before a cast; "
    "add_cycle_metric stores the values as given or recoded/cast as requested; chain_ind is 0..max projected with the "
    "vectors just stored. R10: every attribute a container method reads is bound on every constructor path and "
    "before the constructor's own method calls that need it. R11: the tabular export is built from the metric store "
    "and drops exactly the rows whose cycle does not match the conditions in force (explicit ones, or the stored ones "
    "with subset=True). R12: on the slice-cache route and on the augmented label route every cycle's slot is written "
    "exactly once on every path through the loop: func of exactly the value vector(s) restricted to that cycle, NaN "
    "exactly when the cycle has no extent. "
    "Not decided: equality of arbitrary user functions under cache on/off; the history "
    "quantifier beyond 'each operation preserves R4'.")
RULE_TEXT = "one obligation per operator x literal prefix, per counter clause, per metric store, per cache clause"
FLOORS = {'C15.R1': 30, 'C15.R2': 2, 'C15.R3': 3, 'C15.R4': 2, 'C15.R5': 3, 'C15.R6': 1, 'C15.R7': 1, 'C15.R8': 2, 'C15.R9': 5, 'C15.R10': 1, 'C15.R11': 1, 'C15.R12': 2}
PINNED_EXPECT = [('C15.R5', 'emd.cycles.get_cycle_vector', 'last boundary'),
                 ('C15.R7', 'emd._cycles_support.map_cycle_to_samples_augmented', 'augmented extent'),
                 ('C15.R8', 'emd._cycles_support.get_augmented_cycle_stat_from_samples', 'possibly-None'),
                 ('C15.R8', 'emd._cycles_support.get_slice_stat_from_samples', 'possibly-None')]

OPS = {'==': 'numpy.equal', '!=': 'numpy.not_equal', '<=': 'numpy.less_equal', '>=': 'numpy.greater_equal',
       '<': 'numpy.less', '>': 'numpy.greater'}


def run(ctx):
    ctx.rule(rule_comparators, 'C15.R1')
    ctx.rule(rule_conjunction, 'C15.R2')
    ctx.rule(rule_counters, 'C15.R3')
    ctx.rule(rule_metric_store, 'C15.R4')
    ctx.rule(rule_cache, 'C15.R5')
    ctx.rule(rule_recompute, 'C15.R6')
    ctx.rule(rule_augmented_routes, 'C15.R7')
    ctx.rule(rule_none_extent, 'C15.R8')
    ctx.rule(rule_dispatch, 'C15.R9')
    ctx.rule(rule_chain_position, 'C15.R9')
    ctx.rule(rule_initialised, 'C15.R10')
    ctx.rule(rule_dataframe, 'C15.R11')
    ctx.rule(rule_stat_routes, 'C15.R12')


# ----------------------------------------------------------------------------------------------
class StrEval:
    """Fold string-valued terms for a concrete condition string."""

    def __init__(self, bind):
        self.bind = bind

    def ev(self, t):
        if t in self.bind:
            return self.bind[t]
        k = t[0]
        if k == 'c':
            return t[1]
        if k == 'ref':
            return t
        if k == 'dict':
            return {self.ev(a): self.ev(b) for a, b in t[1]}
        if k in ('tuple', 'list'):
            return tuple(self.ev(x) for x in t[1])
        if k == 'un' and t[1] == 'not':
            return not self.ev(t[2])
        if k in ('and', 'or'):
            vals = [bool(self.ev(x)) for x in t[1]]
            return all(vals) if k == 'and' else any(vals)
        if k == 'sub':
            b = self.ev(t[1])
            idx = t[2]
            if idx[0] == 'slice':
                lo, hi, st = [None if (is_c(x) and x[1] is None) else self.ev(x) for x in idx[1:4]]
                return b[slice(lo, hi, st)]
            return b[self.ev(idx)]
        if k == 'call':
            if t[1] == 'builtins.len':
                return len(self.ev(t[2][0]))
            if t[1] == 're.split':
                import re
                return re.split(self.ev(t[2][0]), self.ev(t[2][1]))
            if t[1] in ('re.match', 're.fullmatch', 're.search', 're.findall'):
                # the standard-library regex engine applied to the concrete test string (no repository code runs)
                import re
                return getattr(re, t[1].split('.')[1])(self.ev(t[2][0]), self.ev(t[2][1]))
            if t[1] == 're.compile':
                import re
                return re.compile(self.ev(t[2][0]))
            if t[1] == 'builtins.str':
                return str(self.ev(t[2][0]))
            if t[1] == 'builtins.float':
                return float(self.ev(t[2][0]))
        if k == 'meth':
            b = self.ev(t[2])
            args = [self.ev(a) for a in t[3]]
            if t[1] in ('lstrip', 'strip', 'rstrip', 'split', 'startswith', 'get', 'keys', 'endswith', 'replace',
                        'partition', 'rpartition', 'lower', 'upper'):
                return getattr(b, t[1])(*args)
            import re
            if isinstance(b, re.Match) and t[1] in ('groups', 'group', 'start', 'end', 'span'):
                return getattr(b, t[1])(*args)
            if isinstance(b, re.Pattern) and t[1] in ('match', 'fullmatch', 'search', 'split', 'findall'):
                return getattr(b, t[1])(*args)
        if k == 'cmp':
            a, b = self.ev(t[2]), self.ev(t[3])
            if t[1] in ('is', 'isnot'):
                r = (a is None) if b is None else (a == b)
                return r if t[1] == 'is' else not r
            if t[1] in ('in', 'notin'):
                r = a in b
                return r if t[1] == 'in' else not r
            return {'==': a == b, '!=': a != b}.get(t[1])
        raise ValueError('cannot fold %s' % show(t)[:60])


def rule_comparators(ctx, rid):
    P = ctx.P
    fi = P.func('emd.cycles.Cycles._parse_condition')
    exits = Evaluator(P).run(fi)
    ctx.paths += len(exits)
    cond = S(fi.params[1])
    for op, want in OPS.items():
        for lit, kind in (('3.5', 'digit'), ('-2', "'-'"), ('.25', "'.'"), ('1e-3', 'exponent'), ('2.5e4', 'exponent')):
            text = 'metric' + op + lit
            c = "'%s' followed by a %s literal selects %s" % (op, kind, want.replace('numpy', 'np'))
            sel = []
            err = None
            for e in exits:
                se = StrEval({cond: text})
                ok = True
                try:
                    for cn, truth, ln in e.state.conds:
                        if bool(se.ev(cn)) != truth:
                            ok = False
                            break
                except (ValueError, IndexError, TypeError) as x:
                    err = str(x)
                    ok = False
                if ok:
                    sel.append(e)
            if len(sel) != 1:
                if err and not sel:
                    ctx.undecided(rid, fi, c, 'cannot fold the parser conditions: %s' % err)
                else:
                    ctx.violation(rid, fi, c, "%d parser paths accept '%s'" % (len(sel), text))
                continue
            e = sel[0]
            if e.kind != 'return' or e.value[0] != 'tuple' or len(e.value[1]) != 3:
                ctx.violation(rid, fi, c, "'%s' does not yield (name, func, value): %s" % (text, show(e.value)[:60]))
                continue
            name_t, func_t, val_t = e.value[1]
            se = StrEval({cond: text})
            problems = []
            try:
                func_v = se.ev(func_t)
            except (ValueError, IndexError, TypeError, KeyError):
                func_v = func_t
            if func_v != ('ref', want):
                problems.append('comparator %s' % show(func_v if isinstance(func_v, tuple) else func_t)[:60])
            try:
                if se.ev(name_t) != 'metric':
                    problems.append('metric name %r' % se.ev(name_t))
                if se.ev(val_t) != float(lit):
                    problems.append('value %r' % se.ev(val_t))
            except (ValueError, IndexError, TypeError) as x:
                problems.append('literal not parsed: %s' % x)
            if problems:
                ctx.violation(rid, fi, c, "'%s' is parsed as %s" % (text, ', '.join(problems)),
                              expected='(metric, %s, %s)' % (want, float(lit)))
            else:
                ctx.passed(rid, fi, c)


def rule_conjunction(ctx, rid):
    P = ctx.P
    fi = P.func('emd.cycles.Cycles.get_matching_cycles')
    exits = [e for e in Evaluator(P).run(fi, context={'ret_separate': False}) if e.kind == 'return']
    ctx.paths += len(exits)
    c1 = 'result is the conjunction over all conditions (np.all over the condition axis)'
    c2 = 'each condition column is comparator(metric, value) with the metric on the left'
    if not exits:
        ctx.undecided(rid, fi, c1, 'no return path')
        return
    ok1 = all((e.value[0] == 'call' and e.value[1] == 'numpy.all' and dict(e.value[3]).get('axis') == C(1))
              or (e.value[0] == 'meth' and e.value[1] == 'all' and (dict(e.value[4]).get('axis') == C(1)
                                                                     or e.value[3] == (C(1),)))
              for e in exits)
    if ok1:
        ctx.passed(rid, fi, c1)
    else:
        ctx.violation(rid, fi, c1, 'returns %s' % show(exits[0].value)[:80])
    bad = None
    n = 0
    for e in exits:
        accs = {t[1].split('@')[0] for t in subterms(e.value) if t[0] == 's' and '@F' in t[1]}
        for ls in e.state.loops:
            if ls.kind != 'for':
                continue
            for kind, b in ls.body_states:
                for eff in b.effects:
                    if eff[0] == 'setitem' and eff[5] in accs:
                        n += 1
                        val = eff[3]
                        idx = eff[2]
                        if not (val[0] == 'callv' and len(val[2]) == 2):
                            bad = 'column value is %s' % show(val)[:60]
                            continue
                        parsed = val[1][1] if val[1][0] == 'sub' else None
                        f_ok = val[1][0] == 'sub' and val[1][2] == C(1)
                        a0, a1 = val[2]
                        m_ok = a0[0] == 'sub' and a0[1][0] == 'attr' and a0[1][2] == 'metrics' \
                            and a0[2] == ('sub', parsed, C(0))
                        v_ok = a1 == ('sub', parsed, C(2))
                        if not (f_ok and m_ok and v_ok):
                            bad = 'column is %s' % show(val)[:100]
                        var = ls.var
                        if not (idx[0] == 'tuple' and idx[1][1] == (var[1][0] if var[0] == 'tuple' else var)):
                            bad = 'written at %s' % show(idx)[:40]
    if bad:
        ctx.violation(rid, fi, c2, bad, expected='func(self.metrics[name], value)')
    elif n == 0:
        ctx.undecided(rid, fi, c2, 'no condition column store found')
    else:
        ctx.passed(rid, fi, c2, '%d store states' % n)


def _loop_store_paths(exits, array_hint=None):
    """[(loop summary, body state, [setitem effects at the loop variable])] for the for-loops of the exits"""
    out = []
    for e in exits:
        for ls in e.state.loops:
            if ls.kind != 'for':
                continue
            for kind, b in ls.body_states:
                stores = [eff for eff in b.effects if eff[0] == 'setitem' and eff[2] == ls.var]
                out.append((ls, b, stores))
    return out


def _enumerate_selections(ctx, fi, make_input, expected, nmax):
    """Evaluate `fi` on every boolean selection pattern of 0..nmax cycles, given as a literal list (the evaluator unrolls
    loops over literal lists and over closed array terms derived from them), and interpret the closed return term.
    -> ('ok', n) | ('bad', message) | ('undecided', why)"""
    import itertools
    from ..orderval import OrderEval, Undecided as OUndecided
    n = 0
    for n_ in range(0, nmax + 1):
        for selv in itertools.product((False, True), repeat=n_):
            inp = make_input(selv)
            want = expected(selv)
            exits = Evaluator(ctx.P).run(fi, args={fi.params[0]: ('list', tuple(C(x) for x in inp))})
            ctx.paths += len(exits)
            live = []
            for e in exits:
                oe = OrderEval({})
                try:
                    if all(bool(oe.ev(cd)) == tr for cd, tr, ln in e.state.conds):
                        live.append(e)
                except IndexError as ie:
                    return 'bad', 'input %s: %s' % (list(inp), ie)
                except OUndecided as u:
                    return 'undecided', 'path condition not interpreted (%s)' % u
                except Exception as u:
                    return 'undecided', 'path condition not interpreted (%r)' % (u,)
            if len(live) != 1:
                return 'undecided', '%d live paths for input %s' % (len(live), list(inp))
            e = live[0]
            if e.kind == 'raise':
                if e.value[0] == 'fault':
                    return 'bad', 'input %s: %s (%s)' % (list(inp), e.value[1], e.value[2])
                return 'undecided', 'input %s reaches a raise' % (list(inp),)
            try:
                got = OrderEval({}).ev(e.value)
            except IndexError as ie:
                return 'bad', 'input %s: %s' % (list(inp), ie)
            except OUndecided as u:
                return 'undecided', 'result not interpreted (%s)' % u
            except Exception as u:
                return 'undecided', 'result not interpreted (%r)' % (u,)
            if not isinstance(got, list):
                return 'undecided', 'result is not a vector'
            if [int(x) if isinstance(x, (bool, int)) else x for x in got] != want:
                return 'bad', 'input %s gives %s, expected %s' % (list(inp), list(got), want)
            n += 1
    return 'ok', n


def _subset_of(selv):
    out, k = [], 0
    for v in selv:
        out.append(k if v else -1)
        k += 1 if v else 0
    return out


def _chain_of(selv):
    want, prev, ch = [], False, -1
    for v in selv:
        if v:
            if not prev:
                ch += 1
            want.append(ch)
        prev = v
    return want


def rule_counters(ctx, rid):
    P = ctx.P
    alg = mk_algebra()
    nmax = 7 if ctx.tier == 'thorough' else 6
    c1 = 'subset vector: -1 for unselected cycles, running counter for selected ones'
    c2 = 'chain vector: index gap 1 keeps the chain, gap > 1 opens the next one'
    c3 = 'chain vector: gaps are differences of the selected cycle indices, the first element starts chain 0'
    # ---- both vectors, read on every selection pattern of up to nmax cycles (they depend on their argument only
    # through the pattern); the syntactic reading below is the fallback for forms the enumeration cannot interpret
    f1 = P.func('emd.cycles.get_subset_vector')
    r1 = _enumerate_selections(ctx, f1, lambda selv: list(selv), _subset_of, nmax)
    f2_ = P.func('emd.cycles.get_chain_vector')
    r2 = _enumerate_selections(ctx, f2_, _subset_of, _chain_of, nmax)
    if r1[0] == 'bad':
        ctx.violation(rid, f1, c1, r1[1] + ' (-1 for unselected cycles, 0,1,2,.. for the selected ones in order)')
    elif r1[0] == 'ok':
        ctx.passed(rid, f1, c1, 'interpreted on all %d selection patterns of up to %d cycles' % (r1[1], nmax))
    if r2[0] == 'bad':
        ctx.violation(rid, f2_, c2, r2[1] + ' (one entry per selected cycle, chains are maximal runs of adjacent '
                      'selected cycles, numbered from 0)')
    elif r2[0] == 'ok':
        ctx.passed(rid, f2_, c2, 'interpreted on all %d selection patterns of up to %d cycles' % (r2[1], nmax))
        ctx.passed(rid, f2_, c3, 'implied by the enumeration')
    if r1[0] == 'undecided':
        _subset_syntactic(ctx, rid, c1, alg)
    if r2[0] == 'undecided':
        _chain_syntactic(ctx, rid, c2, c3, alg)


def _subset_syntactic(ctx, rid, c1, alg):
    P = ctx.P
    # ---- subset vector
    fi = P.func('emd.cycles.get_subset_vector')
    exits = [e for e in Evaluator(P).run(fi) if e.kind == 'return']
    ctx.paths += len(exits)
    bad = unread = None
    n_sel = n_unsel = 0
    sel_term = ('sub', S(fi.params[0]), None)
    counter_names = set()
    for ls, b, stores in _loop_store_paths(exits):
        for st_ in stores:
            if st_[3][0] == 's' and '@F' in st_[3][1]:
                counter_names.add(st_[3][1].split('@')[0])
    for ls, b, stores in _loop_store_paths(exits):
        sel = None
        for cn, truth, ln in b.conds:
            if cn[0] == 'cmp' and cn[2] == ('sub', S(fi.params[0]), ls.var) and cn[3] in (C(0), C(False)) \
                    and cn[1] == '==':
                sel = not truth
            elif cn[0] == 'cmp' and cn[2] == ('sub', S(fi.params[0]), ls.var) and cn[3] in (C(0), C(False)) \
                    and cn[1] == '!=':
                sel = truth
            elif cn == ('sub', S(fi.params[0]), ls.var):
                sel = truth
        if sel is None:
            unread = 'a loop path is not decided by the selection flag valids[i]'
            continue
        if sel:
            n_sel += 1
            if len(stores) != 1:
                bad = 'a selected cycle gets %d writes' % len(stores)
                continue
            val = stores[0][3]
            if not (val[0] == 's' and '@F' in val[1]):
                bad = 'selected cycle gets %s, not the running counter' % show(val)[:40]
                continue
            cname = val[1].split('@')[0]
            if alg.poly(b.env.get(cname)) - alg.poly(val) != alg.poly(C(1)):
                bad = 'counter becomes %s after a selected cycle' % show(b.env.get(cname))[:40]
            if ls.entry_env.get(cname) != C(0):
                bad = 'counter starts at %s' % show(ls.entry_env.get(cname, NONE))
        else:
            n_unsel += 1
            for st_ in stores:
                if st_[3] != C(-1):
                    bad = 'unselected cycle gets %s' % show(st_[3])[:40]
            # the counter written for selected cycles must stand still on this path (other locals may change)
            for name, head in ls.head_env.items():
                if head[0] == 's' and '@F' in head[1] and name in b.env and name in counter_names \
                        and alg.poly(b.env[name]) != alg.poly(head):
                    bad = 'counter %s changes on an unselected cycle' % name
    if bad:
        ctx.violation(rid, fi, c1, bad)
    elif n_sel == 0 or n_unsel == 0 or unread:
        ctx.undecided(rid, fi, c1, unread or 'selected paths: %d, unselected paths: %d' % (n_sel, n_unsel))
    else:
        ctx.passed(rid, fi, c1, '%d selected / %d unselected loop paths' % (n_sel, n_unsel))
    _subset_unwritten(ctx, rid)


def _chain_syntactic(ctx, rid, c2, c3, alg):
    P = ctx.P
    # ---- chain vector
    fi = P.func('emd.cycles.get_chain_vector')
    exits = [e for e in Evaluator(P).run(fi) if e.kind == 'return']
    ctx.paths += len(exits)
    sv = S(fi.params[0])
    inds = ('sub', ('call', 'numpy.where', (('cmp', '>', sv, C(-1)),), ()), C(0))
    gaps = ('sub', ('ref', 'numpy.r_'), ('tuple', (C(1), ('call', 'numpy.diff', (inds,), ()))))

    init_ok_vectorised = False

    def strip_gap(t):
        # np.diff(x, prepend=x[:1] - 1) == r_[1, diff(x)]  (first step is 1 by construction)
        if t[0] == 'call' and t[1] == 'numpy.diff' and len(t[2]) == 1:
            pre = dict(t[3]).get('prepend')
            x = t[2][0]
            if pre is not None and pre == ('bin', '-', ('sub', x, ('slice', NONE, C(1), NONE)), C(1)) \
                    and set(dict(t[3])) <= {'prepend'}:
                return ('sub', ('ref', 'numpy.r_'), ('tuple', (C(1), ('call', 'numpy.diff', (x,), ()))))
        # r_[1, diff(inds)][:len(inds)] == r_[1, diff(inds)] for non-empty inds
        if t[0] == 'sub' and t[2][0] == 'slice' and t[2][1] == NONE and t[2][3] == NONE \
                and t[2][2] == ('call', 'builtins.len', (inds,), ()):
            return t[1]
        return t
    bad = None
    n = 0
    gap_terms = set()
    paths = _loop_store_paths(exits)
    if paths:
        def gap_elem(t, var):
            return t[0] == 'sub' and t[2] == var

        def ev_cond(cd, var, d):
            """truth of a path condition for gap value d (None when the condition does not speak about the gap)"""
            if cd[0] == 'cmp' and gap_elem(cd[2], var) and is_c(cd[3]) and cd[1] in ('==', '!=', '<', '<=', '>', '>='):
                import operator
                return {'==': operator.eq, '!=': operator.ne, '<': operator.lt, '<=': operator.le, '>': operator.gt,
                        '>=': operator.ge}[cd[1]](d, cd[3][1])
            if cd[0] in ('and', 'or'):
                vals = [ev_cond(x, var, d) for x in cd[1]]
                if any(v is None for v in vals):
                    return None
                return all(vals) if cd[0] == 'and' else any(vals)
            if cd[0] == 'un' and cd[1] == 'not':
                v = ev_cond(cd[2], var, d)
                return None if v is None else not v
            return None
        for ls, b, stores in paths:
            for cn, truth, ln in b.conds:
                for t in subterms(cn):
                    if t[0] == 'cmp' and gap_elem(t[2], ls.var):
                        gap_terms.add(strip_gap(t[2][1]))
        # gaps between selected cycle indices are integers >= 1: enumerate 1..4
        for d in (1, 2, 3, 4):
            chosen = []
            for ls, b, stores in paths:
                ok = True
                spoke = False
                for cn, truth, ln in b.conds:
                    v = ev_cond(cn, ls.var, d)
                    if v is None:
                        continue
                    spoke = True
                    if v != truth:
                        ok = False
                if ok and spoke:
                    chosen.append((ls, b, stores))
            if len(chosen) != 1:
                bad = 'an index gap of %d selects %d paths of the labelling loop' % (d, len(chosen))
                break
            ls, b, stores = chosen[0]
            n += 1
            if len(stores) != 1:
                bad = 'a selected cycle whose index gap is %d gets %s (it must get exactly one)' % (
                    d, 'no chain label and keeps the initial value' if not stores else '%d chain labels' % len(stores))
                break
            val = stores[0][3]
            heads = [h for h in ls.head_env.values() if h[0] == 's' and '@F' in h[1]]
            cnt = [h for h in heads if h in set(subterms(val)) and h != ls.var]
            if len(cnt) != 1:
                bad = 'gap %d: the label written (%s) is not derived from a running chain counter' % (d, show(val)[:40])
                break
            head = cnt[0]
            cname = head[1].split('@')[0]
            if d == 1:
                if val != head or b.env.get(cname) != head:
                    bad = 'gap 1 writes %s (counter afterwards %s): the chain must continue' % (show(val), show(b.env.get(cname)))
                    break
            else:
                if alg.poly(val) - alg.poly(head) != alg.poly(C(1)) or \
                        alg.poly(b.env.get(cname)) - alg.poly(head) != alg.poly(C(1)):
                    bad = 'gap %d writes %s, counter %s: a new chain must start' % (d, show(val), show(b.env.get(cname)))
                    break
            if ls.entry_env.get(cname) != C(0):
                bad = 'chain counter starts at %s' % show(ls.entry_env.get(cname, NONE))
                break
        form = 'loop'
    else:
        # vectorised form: the return term is interpreted on every selection pattern of up to 6 cycles (the chain
        # vector depends on the subset vector only through `> -1` and the gaps of the selected positions)
        form = 'vectorised'
        import itertools
        from ..orderval import OrderEval, Undecided as OUndecided
        nmax = 7 if ctx.tier == 'thorough' else 6
        try:
            for n_ in range(0, nmax + 1):
                for selv in itertools.product((False, True), repeat=n_):
                    subset = []
                    k = 0
                    for v in selv:
                        subset.append(k if v else -1)
                        k += 1 if v else 0
                    want = []
                    prev = False
                    ch = -1
                    for v in selv:
                        if v:
                            if not prev:
                                ch += 1
                            want.append(ch)
                        prev = v
                    got = None
                    for e in exits:
                        oe = OrderEval({sv: list(subset)})
                        try:
                            if all(bool(oe.ev(cd)) == tr for cd, tr, ln in e.state.conds):
                                got = oe.ev(e.value)
                                break
                        except IndexError as ie:
                            got = ie
                            break
                    if isinstance(got, IndexError):
                        bad = 'selection %s: %s' % (list(map(int, selv)), got)
                    elif got is None or not isinstance(got, list):
                        raise OUndecided('no return path for selection %s' % (selv,))
                    elif list(got) != want:
                        bad = 'selection %s (subset vector %s): chain vector %s, expected %s (one entry per selected ' \
                              'cycle, chains are maximal runs)' % (list(map(int, selv)), subset, list(got), want)
                    n += 1
                    if bad:
                        break
                if bad:
                    break
            gap_terms.add(gaps)
        except OUndecided as u:
            n = 0
            why_vec = str(u)
    if bad:
        ctx.violation(rid, fi, c2, bad)
    elif n < (2 if form == 'loop' else 1):
        ctx.undecided(rid, fi, c2, 'cannot read how chain labels are assigned (neither the counting loop nor the '
                      'cumulative-sum form)')
    else:
        ctx.passed(rid, fi, c2, '%s form, %d labelling state(s)' % (form, n))
    if gap_terms == {gaps}:
        ctx.passed(rid, fi, c3)
    elif not gap_terms:
        ctx.undecided(rid, fi, c3, 'no gap vector found')
    else:
        ctx.violation(rid, fi, c3, 'gap vector is %s' % [show(g)[:80] for g in gap_terms], expected=show(gaps))


def _subset_unwritten(ctx, rid):
    P = ctx.P
    alg = mk_algebra()
    # initial fill: it only matters where an element can stay unwritten.  Every iteration of the subset loop writes its
    # element (checked above: selected and unselected paths both store) and every gap value selects a storing path of
    # the chain loop, so the initial value of either vector never reaches the result; a rule on it would fire on edits
    # that change nothing (np.ones_like(...) - 2, np.empty_like(...)).
    f2 = P.func('emd.cycles.get_subset_vector')
    ex2 = [e for e in Evaluator(P).run(f2) if e.kind == 'return']
    unwritten = [b for ls, b, stores in _loop_store_paths(ex2) if not stores]
    c = 'subset vector: every element is written by the loop, or the vector starts at -1'
    if not unwritten:
        ctx.passed(rid, f2, c, 'every loop path stores')
    else:
        init = None
        for e in ex2:
            for ls in e.state.loops:
                if ls.kind == 'for':
                    for name, head in ls.head_env.items():
                        if any(eff[0] == 'setitem' and eff[5] == name for kind, b in ls.body_states for eff in b.effects):
                            init = ls.entry_env.get(name)
        t = init
        while t is not None and t[0] == 'meth' and t[1] in ('astype', 'copy'):
            t = t[2]
        ok = t is not None and ((t[0] == 'bin' and t[1] == '-' and t[3] == C(1) and 'zeros' in show(t[2])) or
                                (t[0] == 'call' and t[1] in ('numpy.full', 'numpy.full_like') and len(t[2]) > 1 and t[2][1] == C(-1)))
        if ok:
            ctx.passed(rid, f2, c, 'starts at -1')
        else:
            ctx.violation(rid, f2, c, 'a loop path leaves the element unwritten and the vector starts as %s'
                          % (show(init)[:60] if init is not None else 'unknown'))


def rule_metric_store(ctx, rid):
    P = ctx.P
    m = P.module('emd.cycles')
    n = 0
    for q, fi in sorted(m.functions.items()):
        if not q.startswith('Cycles.'):
            continue
        for node in walk_local(fi.node):
            if isinstance(node, ast.Subscript) and isinstance(node.ctx, ast.Store) \
                    and isinstance(node.value, ast.Attribute) and node.value.attr == 'metrics':
                n += 1
                c = 'store into metrics is length-guarded or of cycle-level provenance'
                # guard: an earlier `if len(v) != self.ncycles: raise` in the same function
                guard = False
                for st in fi.node.body:
                    if isinstance(st, ast.If) and any(isinstance(x, ast.Raise) for x in st.body) \
                            and 'ncycles' in unparse(st.test) and 'len(' in unparse(st.test) \
                            and st.lineno < node.lineno:
                        guard = True
                # provenance: value computed by a projection onto the cycle level
                stmt = None
                for st in walk_local(fi.node):
                    if isinstance(st, ast.Assign) and node in st.targets:
                        stmt = st
                prov = False
                if stmt is not None:
                    names = {x.id for x in ast.walk(stmt.value) if isinstance(x, ast.Name)}
                    for st in walk_local(fi.node):
                        if isinstance(st, ast.Assign) and isinstance(st.value, ast.Call) and any(
                                isinstance(t, ast.Name) and t.id in names for t in st.targets):
                            d = P.resolve_callee(fi.module, fi, st.value.func).dotted or ''
                            if d.endswith('project_subset_to_cycles') or d.endswith('project_chain_to_cycles'):
                                prov = True
                if not (guard or prov):
                    # the same two questions on the evaluated paths (temporaries, helpers and renamed locals do not
                    # hide the projection or the length test there)
                    try:
                        exs = Evaluator(P).run(fi)
                    except Exception:
                        exs = []
                    stores = 0
                    allok = True
                    for e_ in exs:
                        for eff in e_.state.effects:
                            if eff[0] == 'setitem' and eff[1] == _self_attr('metrics') and eff[4] == node.lineno:
                                stores += 1
                                p_ = any(t_[0] == 'call' and t_[1].endswith(('project_subset_to_cycles',
                                                                            'project_chain_to_cycles'))
                                         for t_ in subterms(eff[3]))
                                g_ = any('ncycles' in show(cd_) and 'len(' in show(cd_) for cd_, tr_, ln_ in e_.state.conds)
                                if not (p_ or g_):
                                    allok = False
                    if stores and allok:
                        prov = True
                if guard or prov:
                    ctx.passed(rid, fi, c, 'guarded' if guard else 'projection onto cycles', node=node)
                else:
                    ctx.violation(rid, fi, c, 'a metric of arbitrary length can be stored (every metric must have one '
                                  'entry per cycle)', node=node)
    fi = P.func('emd.cycles.Cycles.add_cycle_metric')
    # every path of add_cycle_metric reaches the guarded store or leaves without storing
    calls = [c for c in P.calls_in(fi) if P.resolve_callee(fi.module, fi, c.func).dotted == 'emd.cycles.Cycles._safe_add_metric']
    c = 'add_cycle_metric stores only through the guarded _safe_add_metric'
    if calls:
        ctx.passed(rid, fi, c)
    else:
        ctx.violation(rid, fi, c, 'add_cycle_metric bypasses the guarded store')
    # a metric array handed to the container is stored by reference in some routes: recoding it in place (NaN -> -1
    # for integer metrics) would rewrite a metric stored earlier from the same array, and the caller's data
    from ..effects import MutationAnalysis
    ma = MutationAnalysis(P)
    for q in ('emd.cycles.Cycles.add_cycle_metric', 'emd.cycles.Cycles.compute_cycle_metric',
              'emd.cycles.Cycles.compute_chain_metric', 'emd.cycles.Cycles._safe_add_metric'):
        f2 = P.func(q)
        mp = ma.mutated_params(f2)
        for formal in f2.params:
            if formal in ('self', 'name', 'func', 'dtype', 'mode'):
                continue
            c = 'metric values %s are not modified in place' % formal
            if formal in mp:
                ctx.violation(rid, f2, c, 'the array passed as %s is changed in place (%s): a metric stored earlier from '
                              'the same array, and the caller\'s data, are rewritten by a later operation'
                              % (formal, mp[formal][0].what), node=mp[formal][0].node)
            else:
                ctx.passed(rid, f2, c)
    for node in walk_local(fi.node):
        if isinstance(node, ast.Return) and isinstance(node.value, ast.Call) and unparse(node.value.func).endswith('Error'):
            ctx.note(rid, fi, 'length mismatch returns an exception object',
                     '`return ValueError(...)` constructs but does not raise; the metric is silently not stored', node=node)


def rule_cache(ctx, rid):
    P = ctx.P
    init = P.func('emd.cycles.Cycles.__init__')
    rec = {}

    def hook(ca, bound, star, st, e):
        if ca.dotted in ('emd.cycles.get_cycle_vector', 'emd._cycles_support.make_slice_cache'):
            rec.setdefault(ca.dotted, []).append((bound, dict(st.env)))
        return None
    Evaluator(P, callee_hook=hook).run(init)
    c = 'the slice cache is built from get_cycle_vector(return_good=False, no mask)'
    gcv = rec.get('emd.cycles.get_cycle_vector', [])
    msc = rec.get('emd._cycles_support.make_slice_cache', [])
    ok = bool(gcv) and bool(msc)
    why = ''
    for bound, env in gcv:
        if bound.get('return_good') != C(False):
            ok, why = False, 'the container labels cycles with return_good=%s' % show(bound.get('return_good', NONE))
        if bound.get('mask', NONE) != NONE:
            ok, why = False, 'the container labels cycles under a mask'
    for bound, env in msc:
        cv = bound.get('cycle_vect')
        if not (cv is not None and cv[0] == 'call' and cv[1] == 'emd.cycles.get_cycle_vector'):
            ok, why = False, 'cache built from %s' % show(cv)[:50]
    if ok:
        ctx.passed(rid, init, c)
    else:
        ctx.violation(rid, init, c, why or 'cache construction not found')
    # gap-free labelling: C12.R1 on that context
    from .c12 import rule_cover
    A = cyclevec.get(ctx, False, False)
    rule_cover(ctx, rid, A, 'cache precondition (all cycles, no mask)')
    # the cache's own boundaries
    fi = P.func('emd._cycles_support.make_slice_cache')
    exits = [e for e in Evaluator(P).run(fi) if e.kind == 'return']
    c = 'cache boundaries are [0] ++ (positions where the label increments) ++ [N]'
    cv = S(fi.params[0])
    inc = ('bin', '+', ('sub', ('call', 'numpy.where', (('cmp', '==', ('call', 'numpy.diff', (cv,), (('axis', C(0)),)), C(1)),), ()), C(0)), C(1))
    nlen = ('call', 'builtins.len', (cv,), ())
    A = cyclevec.get(ctx, False, False)
    ok = False
    found = ''
    # first reading: the returned list of slices interpreted on sample label vectors (gap-free labellings 0..K-1, as
    # the cache precondition guarantees); the syntactic reading below serves forms outside the interpreted fragment
    sem = None
    # the container hands the cache its label vector as a column [samples x 1] (what get_cycle_vector returns): a
    # difference / cumulative operation applied to the vector as given must run along axis 0 - along the last axis it
    # sees one element per row and finds no boundary at all.  (After ravel / squeeze / [:, 0] any axis spelling is fine.)
    if len(exits) == 1:
        for t_ in subterms(exits[0].value):
            if t_[0] == 'call' and t_[1] in ('numpy.diff', 'numpy.cumsum', 'numpy.gradient') and t_[2] and t_[2][0] == cv:
                ax_ = dict(t_[3]).get('axis', t_[2][2] if t_[1] == 'numpy.diff' and len(t_[2]) > 2 else None)
                if ax_ != C(0):
                    ctx.violation(rid, fi, c, '%s is applied to the label vector along %s: the container passes a '
                                  '[samples x 1] column, along its last axis there is a single element per row and no '
                                  'cycle boundary is found' % (t_[1].split('.')[-1],
                                                               'its last axis (the default)' if ax_ is None else 'axis %s' % show(ax_)))
                    return
            if t_[0] == 'sub' and is_c(t_[2]) and t_[2][1] not in (0,) and t_[1][0] == 'call' \
                    and t_[1][1] in ('numpy.where', 'numpy.nonzero') and len(t_[1][2]) == 1 \
                    and cv in set(subterms(t_[1][2][0])) \
                    and not any(x_[0] == 'meth' and x_[1] in ('ravel', 'flatten', 'squeeze') for x_ in subterms(t_[1][2][0])):
                ctx.violation(rid, fi, c, 'np.where(..)[%s] of a condition on the [samples x 1] label column is its column '
                              'coordinate (all zeros), not the sample positions' % t_[2][1])
                return
    if len(exits) == 1:
        from ..orderval import OrderEval, Undecided as OUndecided, Vec
        try:
            for lab in ([0], [0, 0, 0], [0, 1], [0, 0, 1, 1, 1, 2], [0, 1, 1, 2, 3, 3, 3], [0, 0, 1, 2, 2]):
                want = []
                start = 0
                for i_ in range(1, len(lab) + 1):
                    if i_ == len(lab) or lab[i_] != lab[i_ - 1]:
                        want.append((start, i_))
                        start = i_
                got = OrderEval({cv: Vec(lab)}).ev(exits[0].value)
                if not isinstance(got, list) or not all(isinstance(x, slice) for x in got):
                    raise OUndecided('not a list of slices')
                gotp = [(x.start, x.stop) for x in got if x.step in (None, 1)]
                if gotp != want or len(gotp) != len(got):
                    sem = 'labels %s give slices %s, expected %s' % (lab, [(x.start, x.stop) for x in got], want)
                    break
            else:
                sem = True
        except IndexError as ie:
            sem = 'labels %s: %s' % (lab, ie)
        except (OUndecided, TypeError, ValueError):
            sem = None
    if sem is True:
        ctx.passed(rid, fi, c, 'interpreted on 6 label vectors')
        return
    if sem is not None:
        ctx.violation(rid, fi, c, sem)
        return
    if len(exits) == 1 and exits[0].value[0] == 'comp' and len(exits[0].value[3]) == 1:
        comp = exits[0].value
        var, it, cnds = comp[3][0]
        elt = comp[2]
        S_t = T_t = None
        if elt[0] == 'call' and elt[1] == 'builtins.slice' and len(elt[2]) == 2 and not cnds:
            a0, a1 = elt[2]
            if it[0] == 'call' and it[1] == 'builtins.zip' and len(it[2]) == 2 and var[0] == 'tuple' \
                    and (a0, a1) == tuple(var[1]):
                S_t, T_t = it[2]
            elif a0[0] == 'sub' and a1[0] == 'sub' and a0[2] == var and a1[2] == var and it[0] == 'call' \
                    and it[1] == 'builtins.range' and it[2] in ((('call', 'builtins.len', (a0[1],), ()),),
                                                                 (('call', 'builtins.len', (a1[1],), ()),)):
                S_t, T_t = a0[1], a1[1]
        if S_t is not None:
            sp = A.decode_boundaries(S_t)
            tp = A.decode_boundaries(T_t)
            ok = (sp == [C(0), inc] and tp == [inc, nlen])
            found = 'starts %s / stops %s' % ([show(x)[:40] for x in sp], [show(x)[:40] for x in tp])
    if ok:
        ctx.passed(rid, fi, c)
    else:
        ctx.violation(rid, fi, c, 'cache is %s' % (found or (show(exits[0].value)[:160] if exits else 'not returned')))


def rule_recompute(ctx, rid):
    """pick_cycle_subset derives subset and chain vectors from the *current* metrics on every call: no path may
    return without recomputing them (metrics can change between two picks with the same condition strings)."""
    P = ctx.P
    fi = P.func('emd.cycles.Cycles.pick_cycle_subset')
    exits = Evaluator(P).run(fi)
    ctx.paths += len(exits)
    c = 'every call recomputes subset_vect, chain_vect and chain_ind from the current metrics'
    bad = None
    n = 0
    for e in exits:
        if e.kind != 'return':
            continue
        n += 1
        sv = e.state.env.get('self.subset_vect')
        cv = e.state.env.get('self.chain_vect')
        ok_sv = sv is not None and sv[0] == 'call' and sv[1] == 'emd.cycles.get_subset_vector' \
            and any(t[0] == 'call' and t[1] == 'emd.cycles.Cycles.get_matching_cycles' for t in subterms(sv))
        ok_cv = cv is not None and cv[0] == 'call' and cv[1] == 'emd.cycles.get_chain_vector'
        ok_ci = any(eff[0] == 'expr' and eff[1][0] == 'call' and eff[1][1] == 'emd.cycles.Cycles.add_cycle_metric'
                    and dict(eff[1][3]).get('name') == C('chain_ind') for eff in e.state.effects)
        if not (ok_sv and ok_cv and ok_ci):
            bad = (e, 'a path returns without recomputing %s' % ', '.join(
                x for x, ok in (('subset_vect', ok_sv), ('chain_vect', ok_cv), ('chain_ind', ok_ci)) if not ok))
    if bad:
        ctx.violation(rid, fi, c, bad[1] + ' (subset and chains go stale when a metric changed since the last pick)',
                      node=bad[0].node, path=trace_tail(bad[0].state, 6))
    elif n == 0:
        ctx.undecided(rid, fi, c, 'no return path')
    else:
        ctx.passed(rid, fi, c, '%d return path(s)' % n)


# ----------------------------------------------------------------------------------------------
# C15.R7 / R8: the two routes of the augmented-cycle metrics (slice cache on / off) are sibling implementations
CSUP = 'emd._cycles_support.'


def _may_return_none(P, q):
    return any(e.kind == 'return' and e.value == NONE for e in Evaluator(P).run(P.func(q)))


def rule_augmented_routes(ctx, rid):
    """Cache route: augment_slice(slice(first, last+1), phase); label route: map_cycle_to_samples_augmented.  With
    s.start := first sample of the cycle and s.stop := last sample + 1 both must describe the same index range and
    return None under the same condition."""
    P = ctx.P
    alg = mk_algebra()
    a = P.func(CSUP + 'augment_slice')
    m = P.func(CSUP + 'map_cycle_to_samples_augmented')
    c = 'augmented extent of a cycle is the same with and without the slice cache'
    ae = [e for e in Evaluator(P).run(a) if e.kind == 'return']
    # the label route may itself go through augment_slice (inlined here, so that both routes are compared as terms)
    me = [e for e in Evaluator(P, inline=lambda q, d: q == CSUP + 'augment_slice').run(m) if e.kind == 'return']
    ctx.paths += len(ae) + len(me)
    inds = ('sub', ('call', 'numpy.where', (('cmp', '==', S('cycle_vect'), S('ii')),), ()), C(0))
    first = ('sub', inds, C(0))
    stop = ('bin', '+', ('sub', inds, C(-1)), C(1))
    sub = {('attr', S(a.params[0]), 'start'): first, ('attr', S(a.params[0]), 'stop'): stop}

    def canon_range(v):
        """(start poly, stop poly) of slice(a, b) / np.arange(a, b), or None / 'NONE'."""
        if v == NONE:
            return 'NONE'
        if v[0] == 'call' and v[1] in ('builtins.slice', 'numpy.arange') and len(v[2]) == 2:
            return (alg.poly(v[2][0]), alg.poly(v[2][1]))
        return None

    def table(exits, subst):
        rows = set()
        for e in exits:
            v = substitute(e.value, subst) if subst else e.value
            r = canon_range(v)
            if r is None:
                return None, 'cannot read the returned range %s' % show(e.value)[:80]
            conds = frozenset((alg.canon(substitute(cd, subst) if subst else cd), truth)
                              for cd, truth, ln in e.state.conds)
            rows.add((conds, r if r == 'NONE' else (str(r[0]), str(r[1]))))
        return rows, None
    ta, wa = table(ae, sub)
    tm, wm = table(me, None)
    if ta is None or tm is None:
        ctx.undecided(rid, m, c, wa or wm)
        return
    if ta == tm:
        ctx.passed(rid, m, c, '%d cases (None / range) agree after s.start := first sample, s.stop := last + 1' % len(ta))
    else:
        only_a = sorted(str(x[1]) for x in ta - tm)
        only_m = sorted(str(x[1]) for x in tm - ta)
        ctx.violation(rid, m, c, 'the label route and the slice-cache route delimit the augmented cycle differently, so '
                      'metrics computed in augmented mode depend on use_cache',
                      expected='cache route: %s' % '; '.join(only_a)[:300], found='label route: %s' % '; '.join(only_m)[:300])


def rule_none_extent(ctx, rid):
    """A cycle without augmented extent (None from the lookup / a None slice) gives NaN on both routes: the value
    vector is never indexed with a possibly-None index without a guard."""
    P = ctx.P
    may = {q: _may_return_none(P, CSUP + q) for q in ('map_cycle_to_samples_augmented', 'augment_slice')}
    ctx.cover['augmented_lookups_may_return_none'] = may
    # elements of the augmented slice cache come from augment_slice (default func of make_aug_slice_cache)
    mk = P.func(CSUP + 'make_aug_slice_cache')
    slices_none = False
    dflt = mk.defaults.get('func')
    if dflt is not None and P.resolve(mk.module, dflt, mk) == CSUP + 'augment_slice':
        slices_none = may['augment_slice']
    for name in ('get_augmented_cycle_stat_from_samples', 'get_slice_stat_from_samples'):
        fi = P.func(CSUP + name)
        c = 'values are never indexed with a possibly-None extent'
        exits = [e for e in Evaluator(P).run(fi) if e.kind == 'return']
        ctx.paths += len(exits)
        bad = None
        nsub = 0

        def maybe_none(idx, binders):
            if idx[0] == 'call' and idx[1] == CSUP + 'map_cycle_to_samples_augmented':
                return may['map_cycle_to_samples_augmented']
            if name == 'get_slice_stat_from_samples' and slices_none and idx in binders:
                return True
            return False

        def walk(t, guards, binders):
            nonlocal bad, nsub
            if not isinstance(t, tuple) or not t or not isinstance(t[0], str):
                return
            if t[0] == 'ifexp':
                walk(t[1], guards, binders)
                walk(t[2], guards | {(t[1], True)}, binders)
                walk(t[3], guards | {(t[1], False)}, binders)
                return
            if t[0] == 'comp':
                b2 = set(binders)
                for var, it, conds in t[3]:
                    if it == S('slices'):
                        b2.add(var)
                    if it[0] == 'call' and it[1] == 'builtins.enumerate' and it[2] == (S('slices'),) \
                            and var[0] == 'tuple' and len(var[1]) == 2:
                        b2.add(var[1][1])
                    walk(it, guards, binders)
                walk(t[2], guards, b2)
                return
            if t[0] == 'sub' and t[2] == NONE and t[1][0] in ('s', 'bv') and bad is None:
                nsub += 1
                bad = 'the values are indexed with a value known to be None on this path: x[None] is the whole ' \
                      'recording with a new axis, so the function sees every sample'
            if t[0] == 'sub' and maybe_none(t[2], binders):
                nsub += 1
                ok = any((g[0] == 'cmp' and g[2] == t[2] and g[3] == NONE and
                          ((g[1] == 'isnot') == tr)) for g, tr in guards)
                if not ok and bad is None:
                    bad = 'the values are indexed with %s, which is None for a cycle without augmented extent: ' \
                          'x[None] is the whole recording with a new axis, so the function sees every sample' \
                          % show(t[2])[:60]
            for x in t[1:]:
                if isinstance(x, tuple):
                    if x and isinstance(x[0], str):
                        walk(x, guards, binders)
                    else:
                        for y in x:
                            if isinstance(y, tuple):
                                if y and isinstance(y[0], str):
                                    walk(y, guards, binders)
                                else:
                                    for z in y:
                                        walk(z, guards, binders)
        for e in exits:
            walk(e.value, frozenset(), set())
            for ls in e.state.loops:
                if ls.kind != 'for':
                    continue
                binders = set()
                if ls.iter_term == S('slices'):
                    binders.add(ls.var)
                if ls.iter_term[0] == 'call' and ls.iter_term[1] == 'builtins.enumerate' \
                        and ls.iter_term[2] == (S('slices'),) and ls.var[0] == 'tuple' and len(ls.var[1]) == 2:
                    binders.add(ls.var[1][1])
                for kind, b in ls.body_states:
                    guards = frozenset((cd, truth) for cd, truth, ln in b.conds)
                    for eff in b.effects:
                        if eff[0] == 'setitem':
                            walk(eff[3], guards, binders)
        if bad:
            ctx.violation(rid, fi, c, bad)
        elif nsub == 0:
            ctx.undecided(rid, fi, c, 'no indexing by a per-cycle extent found')
        else:
            ctx.passed(rid, fi, c, '%d guarded indexing site state(s)' % nsub)


# ----------------------------------------------------------------------------------------------
# C15.R9: the container methods hand exactly the object's own vectors to the support routines
def _self_attr(name):
    return ('attr', S('self'), name)


def _strip_cast(t):
    """value under .astype(...) / .copy() wrappers -> (value, cast dtype term or None)"""
    cast = None
    while t[0] == 'meth' and t[1] in ('astype', 'copy'):
        if t[1] == 'astype':
            cast = t[3][0] if t[3] else dict(t[4]).get('dtype')
        t = t[2]
    return t, cast


def _strip_recode(t):
    """X{[isnan(X)] := v} -> (X, v) ; else (t, None)"""
    if t[0] == 'setitem':
        base, idx, v = t[1], t[2], t[3]
        if idx[0] == 'call' and idx[1] == 'numpy.isnan' and idx[2] and _strip_cast(idx[2][0])[0] == _strip_cast(base)[0]:
            return base, v
    if t[0] == 'call' and t[1] == 'numpy.where' and len(t[2]) == 3 and not t[3]:
        # np.where(np.isnan(X), v, X)
        cnd, v, base = t[2]
        if cnd[0] == 'call' and cnd[1] == 'numpy.isnan' and cnd[2] and _strip_cast(cnd[2][0])[0] == _strip_cast(base)[0] \
                and is_c(v):
            return base, v
    return t, None


def _stored_call(e, names):
    """the (single) call effect of exit e to one of the container's storing methods -> bound keyword dict"""
    out = []
    for eff in e.state.effects:
        if eff[0] == 'expr' and eff[1][0] == 'call' and eff[1][1] in names:
            out.append(dict(eff[1][3]))
    return out


def _cond_truth(e, pred):
    for cd, truth, ln in e.state.conds:
        r = pred(cd)
        if r is not None:
            return truth if r else (not truth)
    return None


def _is_none_test(cd, what):
    """cd is `what is None` -> True, `what is not None` -> False, else None"""
    if cd[0] == 'cmp' and cd[2] == what and cd[3] == NONE and cd[1] in ('is', 'isnot', '==', '!='):
        return cd[1] in ('is', '==')
    return None


def rule_dispatch(ctx, rid):
    P = ctx.P
    ADD = ('emd.cycles.Cycles.add_cycle_metric', 'emd.cycles.Cycles._safe_add_metric')
    # ---- compute_cycle_metric
    fi = P.func('emd.cycles.Cycles.compute_cycle_metric')
    c = 'per mode x cache state the stored metric is the matching support routine on (vals, own labels / cache, func)'
    bad = None
    seen = set()
    for mode in ('cycle', 'augmented'):
        exits = Evaluator(P).run(fi, context={'mode': mode})
        ctx.paths += len(exits)
        cache = _self_attr('_slice_cache' if mode == 'cycle' else '_slice_cache_aug')
        for e in exits:
            if bad:
                break
            if e.kind != 'return':
                bad = (e, "mode='%s' raises" % mode)
                break
            calls = _stored_call(e, ADD)
            if len(calls) != 1:
                bad = (e, "mode='%s': a path stores %d metrics" % (mode, len(calls)))
                break
            kw = calls[0]
            if kw.get('name') != S('name'):
                bad = (e, "mode='%s': stored under %s" % (mode, show(kw.get('name', NONE))))
                break
            v, cast = _strip_cast(kw.get('cycle_vals', kw.get('vals', NONE)))
            dt_none = _cond_truth(e, lambda cd: _is_none_test(cd, S('dtype')))
            outer_dt = kw.get('dtype', NONE)
            if dt_none is False and cast != S('dtype') and outer_dt != S('dtype'):
                bad = (e, "mode='%s': a requested dtype is not applied" % mode)
                break
            if dt_none is True and (cast is not None and cast != NONE or outer_dt not in (NONE, S('dtype'))):
                bad = (e, "mode='%s': dtype=None but the metric is cast to %s" % (mode, show(cast or outer_dt)))
                break
            if v[0] != 'call' or not v[1].startswith(CSUP):
                ctx.undecided(rid, fi, c, "mode='%s': stored value is %s" % (mode, show(v)[:80]))
                return
            a = dict(v[3])
            cache_none = _cond_truth(e, lambda cd: _is_none_test(cd, cache))
            r = v[1][len(CSUP):]
            if a.get('vals') != S('vals') or a.get('func') != S('func'):
                bad = (e, "mode='%s': %s is not applied to (vals, func=func): vals=%s func=%s"
                       % (mode, r, show(a.get('vals', NONE))[:40], show(a.get('func', S('<default np.mean>')))[:40]))
                break
            if r == 'get_slice_stat_from_samples':
                if a.get('slices') != cache:
                    bad = (e, "mode='%s' reads %s" % (mode, show(a.get('slices', NONE))[:50]))
                elif cache_none is not False:
                    bad = (e, "mode='%s': the slice route is taken although %s %s"
                           % (mode, show(cache), 'is None' if cache_none else 'may be None'))
            elif r == 'get_cycle_stat_from_samples' and mode == 'cycle':
                if a.get('cycle_vect') != _self_attr('cycle_vect'):
                    bad = (e, "mode='cycle': labels are %s" % show(a.get('cycle_vect', NONE))[:50])
            elif r == 'get_augmented_cycle_stat_from_samples' and mode == 'augmented':
                if a.get('cycle_vect') != _self_attr('cycle_vect') or a.get('phase') != _self_attr('phase'):
                    bad = (e, "mode='augmented': labels / phase are %s / %s"
                           % (show(a.get('cycle_vect', NONE))[:40], show(a.get('phase', NONE))[:40]))
            else:
                bad = (e, "mode='%s' computes %s" % (mode, r))
            seen.add((mode, cache_none))
    if bad:
        ctx.violation(rid, fi, c, bad[1], node=bad[0].node, path=trace_tail(bad[0].state, 6))
    else:
        ctx.passed(rid, fi, c, '%d mode x cache states' % len(seen))
    # ---- compute_chain_metric
    fi = P.func('emd.cycles.Cycles.compute_chain_metric')
    c = 'a chain metric is the per-chain statistic on the own chain / subset / label vectors, projected onto cycles'
    want_stat = {'vals': S('vals'), 'chain_vect': _self_attr('chain_vect'), 'subset_vect': _self_attr('subset_vect'),
                 'cycle_vect': _self_attr('cycle_vect'), 'func': S('func')}
    bad = None
    n = 0
    for e in Evaluator(P).run(fi):
        ctx.paths += 1
        if e.kind != 'return':
            continue
        n += 1
        calls = _stored_call(e, ADD)
        if len(calls) != 1:
            bad = (e, 'a path stores %d metrics' % len(calls))
            break
        kw = calls[0]
        if kw.get('name') != S('name'):
            bad = (e, 'stored under %s' % show(kw.get('name', NONE)))
            break
        v, cast = _strip_cast(kw.get('cycle_vals', kw.get('vals', NONE)))
        v, rec = _strip_recode(v)
        outer_dt = kw.get('dtype', NONE)
        dt_none = _cond_truth(e, lambda cd: _is_none_test(cd, S('dtype')))
        if dt_none is False:
            if cast != S('dtype') and outer_dt != S('dtype'):
                bad = (e, 'a requested dtype is not applied')
                break
            if cast == S('dtype') and rec != C(-1):
                bad = (e, 'cycles outside every chain (NaN) are %s before the cast to the requested dtype '
                       '(-1 marks "not in a chain" in integer metrics; casting NaN to an integer is undefined)'
                       % ('not recoded' if rec is None else 'recoded to %s' % show(rec)))
                break
        if dt_none is True and (cast not in (None, NONE) or rec is not None):
            bad = (e, 'dtype=None but the metric is %s' % ('cast' if cast else 'recoded'))
            break
        if v[0] == 'call' and v[1] == CSUP + 'get_chain_stat_from_samples':
            bad = (e, 'the per-chain values are stored without projection onto cycles (one entry per chain, not per cycle)')
            break
        if not (v[0] == 'call' and v[1] == CSUP + 'project_chain_to_cycles'):
            ctx.undecided(rid, fi, c, 'stored value is %s' % show(v)[:80])
            return
        a = dict(v[3])
        st = a.get('vals', NONE)
        if a.get('chain_vect') != want_stat['chain_vect'] or a.get('subset_vect') != want_stat['subset_vect']:
            bad = (e, 'projected with %s / %s' % (show(a.get('chain_vect', NONE))[:40], show(a.get('subset_vect', NONE))[:40]))
            break
        if not (st[0] == 'call' and st[1] == CSUP + 'get_chain_stat_from_samples'):
            bad = (e, 'the projected values are %s' % show(st)[:80])
            break
        sa = dict(st[3])
        diff = [k for k in want_stat if sa.get(k) != want_stat[k]]
        if diff:
            bad = (e, 'per-chain statistic called with %s' % ', '.join('%s=%s' % (k, show(sa.get(k, S('<default>')))[:30]) for k in diff))
            break
    if bad:
        ctx.violation(rid, fi, c, bad[1], node=bad[0].node, path=trace_tail(bad[0].state, 6))
    elif n == 0:
        ctx.undecided(rid, fi, c, 'no storing path')
    else:
        ctx.passed(rid, fi, c, '%d storing paths' % n)
    # ---- add_cycle_metric
    fi = P.func('emd.cycles.Cycles.add_cycle_metric')
    c = 'an added metric is stored as given (dtype=None), or recoded NaN -> -1 (int) and cast to the requested dtype'
    bad = None
    n = 0
    INT = ('ref', 'builtins.int')
    for label, args in (('dtype=None', {'dtype': NONE}), ('dtype=int', {'dtype': INT}), ('dtype=<other>', {'dtype': S('dtype')})):
        for e in Evaluator(P).run(fi, args=args):
            ctx.paths += 1
            calls = _stored_call(e, ADD[1:])
            direct = [eff for eff in e.state.effects if eff[0] == 'setitem' and eff[1] == _self_attr('metrics')]
            if e.kind != 'return' or (not calls and not direct):
                continue    # the length guard
            if label == 'dtype=<other>' and _cond_truth(e, lambda cd: _is_none_test(cd, S('dtype'))) is not False:
                continue
            if any(cd[0] == 'cmp' and cd[1] in ('is', 'isnot', '==', '!=') and cd[2][0] in ('ref', 'c') and cd[3][0] in ('ref', 'c')
                   and ((cd[2] == cd[3]) == (cd[1] in ('is', '=='))) != tr for cd, tr, ln in e.state.conds):
                continue    # infeasible for this dtype
            if label == 'dtype=<other>' and any(cd[0] == 'cmp' and cd[2] == S('dtype') and cd[3] == INT and tr
                                                for cd, tr, ln in e.state.conds):
                continue
            n += 1
            stored = calls[0].get('vals', NONE) if calls else direct[0][3]
            v, cast = _strip_cast(stored)
            v, rec = _strip_recode(v)
            v, _ = _strip_cast(v)
            if v != S('cycle_vals'):
                bad = (e, '%s: the stored metric is %s' % (label, show(stored)[:80]))
            elif label == 'dtype=None' and (cast not in (None, NONE) or rec is not None):
                bad = (e, 'dtype=None: the metric is %s before it is stored' % ('recoded' if rec is not None else 'cast to %s' % show(cast)))
            elif label != 'dtype=None' and cast != args['dtype']:
                bad = (e, '%s: the requested dtype is not applied (stored %s)' % (label, show(stored)[:60]))
            elif label == 'dtype=int' and rec != C(-1):
                bad = (e, 'dtype=int: NaN entries are %s before the integer cast (-1 marks a missing value in integer '
                       'metrics; casting NaN to an integer is undefined)' % ('not recoded' if rec is None else 'recoded to %s' % show(rec)))
            if bad:
                break
        if bad:
            break
    if bad:
        ctx.violation(rid, fi, c, bad[1], node=bad[0].node, path=trace_tail(bad[0].state, 6))
    elif n < 3:
        ctx.undecided(rid, fi, c, '%d storing paths' % n)
    else:
        ctx.passed(rid, fi, c, '%d storing paths' % n)
    # ---- pick_cycle_subset: chain index per cycle
    fi = P.func('emd.cycles.Cycles.pick_cycle_subset')
    c = "chain_ind is the chain number 0..max projected onto cycles with the new chain and subset vectors"
    bad = None
    n = 0
    for e in Evaluator(P).run(fi):
        if e.kind != 'return':
            continue
        cv = e.state.env.get('self.chain_vect')
        sv = e.state.env.get('self.subset_vect')
        for kw in _stored_call(e, ADD):
            if kw.get('name') != C('chain_ind'):
                continue
            n += 1
            v, cast = _strip_cast(kw.get('cycle_vals', NONE))
            if kw.get('dtype', cast) != INT and cast != INT:
                bad = (e, 'chain_ind is not stored as an integer metric (dtype=%s)' % show(kw.get('dtype', NONE)))
                break
            if not (v[0] == 'call' and v[1] == CSUP + 'project_chain_to_cycles'):
                ctx.undecided(rid, fi, c, 'chain_ind is %s' % show(v)[:80])
                return
            a = dict(v[3])
            if a.get('chain_vect') != cv or a.get('subset_vect') != sv or cv is None or sv is None:
                bad = (e, 'chain_ind is projected with vectors other than the ones just stored')
                break
            nums = a.get('vals', NONE)
            mx = [('meth', 'max', cv, (), ()), ('call', 'numpy.max', (cv,), ()), ('call', 'builtins.max', (cv,), ())]
            stops = [('bin', '+', m, C(1)) for m in mx] + [('bin', '+', C(1), m) for m in mx]
            okn = nums[0] == 'call' and nums[1] == 'numpy.arange' and not nums[3] and (
                (len(nums[2]) == 1 and nums[2][0] in stops) or (len(nums[2]) == 2 and nums[2][0] == C(0) and nums[2][1] in stops))
            if not okn:
                if nums[0] == 'call' and nums[1] == 'numpy.arange':
                    bad = (e, 'chain numbers are %s (expected 0 .. chain_vect.max())' % show(nums)[:80])
                    break
                ctx.undecided(rid, fi, c, 'chain numbers are %s' % show(nums)[:80])
                return
    if bad:
        ctx.violation(rid, fi, c, bad[1], node=bad[0].node, path=trace_tail(bad[0].state, 6))
    elif n == 0:
        ctx.undecided(rid, fi, c, 'no chain_ind store found')
    else:
        ctx.passed(rid, fi, c, '%d path(s)' % n)


# ----------------------------------------------------------------------------------------------
# C15.R10: the container's state is completely initialised (every attribute a method reads is bound by the
# constructor on every path, and before the constructor itself calls a method that reads it)
def _attr_reads(P, cls='Cycles', mod='emd.cycles'):
    m = P.module(mod)
    methods = {q.split('.', 1)[1]: fi for q, fi in m.functions.items() if q.startswith(cls + '.') and q.count('.') == 1}
    direct, calls, writes = {}, {}, {}
    for name, fi in methods.items():
        rd, cl, wr = set(), set(), set()
        for n in ast.walk(fi.node):
            if isinstance(n, ast.Attribute) and isinstance(n.value, ast.Name) and n.value.id == 'self':
                if isinstance(n.ctx, ast.Load):
                    (cl if n.attr in methods else rd).add(n.attr)
                else:
                    wr.add(n.attr)
        direct[name], calls[name], writes[name] = rd, cl, wr
    # attributes a method reads before (possibly) writing them itself are approximated by: read and not written first
    # in straight-line order; precise enough here: take reads that are not dominated by a write in the same method
    for name, fi in methods.items():
        first = {}
        for n in ast.walk(fi.node):
            if isinstance(n, ast.Attribute) and isinstance(n.value, ast.Name) and n.value.id == 'self' \
                    and n.attr not in methods:
                k = (n.lineno, n.col_offset)
                if n.attr not in first or k < first[n.attr][0]:
                    first[n.attr] = (k, isinstance(n.ctx, ast.Load))
        direct[name] = {a for a in direct[name] if first[a][1] or _in_aug(fi.node, a)}
    wtrans = {}

    def wclose(name, seen):
        if name in seen:
            return set()
        out = set(writes[name])
        for c in calls[name]:
            out |= wclose(c, seen | {name})
        return out
    for name in methods:
        wtrans[name] = wclose(name, frozenset())
    _attr_reads.writes = wtrans
    trans = {}

    def close(name, seen):
        if name in trans:
            return trans[name]
        if name in seen:
            return set()
        out = set(direct[name])
        for c in calls[name]:
            out |= close(c, seen | {name})
        return out
    for name in methods:
        trans[name] = close(name, frozenset())
    return methods, trans


def _in_aug(fnode, attr):
    for n in ast.walk(fnode):
        if isinstance(n, ast.AugAssign) and isinstance(n.target, ast.Attribute) and n.target.attr == attr:
            return True
    return False


def rule_initialised(ctx, rid):
    P = ctx.P
    methods, reads = _attr_reads(P)
    init = P.func('emd.cycles.Cycles.__init__')
    maywrite = _attr_reads.writes
    cls_names = set(methods)
    for st_ in P.module('emd.cycles').classes['Cycles'].body:
        if isinstance(st_, (ast.Assign, ast.AnnAssign)):
            for t in (st_.targets if isinstance(st_, ast.Assign) else [st_.target]):
                if isinstance(t, ast.Name):
                    cls_names.add(t.id)
    problems = []

    def bound(st):
        return {k[5:] for k in st.env if k.startswith('self.')}

    def hook(ca, bnd, star, st, e):
        d = ca.dotted or ''
        if d.startswith('emd.cycles.Cycles.') and d.count('.') == 3:
            name = d.rsplit('.', 1)[1]
            miss = sorted(reads.get(name, set()) - bound(st) - cls_names)
            if miss:
                problems.append((e, 'the constructor calls %s() before binding self.%s' % (name, ', self.'.join(miss))))
            for a in maywrite.get(name, ()):
                st.env.setdefault('self.' + a, S('self.%s@%s' % (a, name)))     # bound by the helper method
        return None
    exits = Evaluator(P, callee_hook=hook).run(init)
    ctx.paths += len(exits)
    allreads = set()
    for name, r in reads.items():
        if name != '__init__':
            allreads |= r
    n = 0
    for e in exits:
        if e.kind != 'return':
            continue
        n += 1
        miss = sorted(allreads - bound(e.state) - cls_names)
        if miss:
            conds = '; '.join('%s=%s' % (show(cd)[:30], t) for cd, t, ln in e.state.conds)
            problems.append((e.node, 'a constructor path (%s) leaves self.%s unbound although methods read it'
                             % (conds or 'unconditional', ', self.'.join(miss))))
    c = 'every attribute the methods read is bound on every constructor path, before the first method call needing it'
    if problems:
        node, msg = problems[0]
        ctx.violation(rid, init, c, msg + ' (AttributeError instead of a result, e.g. with the slice cache turned off)',
                      node=node if hasattr(node, 'lineno') else None)
    elif n == 0:
        ctx.undecided(rid, init, c, 'no returning constructor path')
    else:
        ctx.passed(rid, init, c, '%d constructor paths, %d attributes read by %d methods' % (n, len(allreads), len(methods)))


def rule_chain_position(ctx, rid):
    """compute_position_in_chain: for every chain number 0..max the members of that chain (in order) get positions
    0, 1, 2, ...; the result is projected from the subset onto cycles, non-members recoded to -1, stored as integers."""
    P = ctx.P
    fi = P.func('emd.cycles.Cycles.compute_position_in_chain')
    c = "chain_position numbers the members of every chain 0, 1, 2, ... and is projected from the subset onto cycles"
    exits = [e for e in Evaluator(P).run(fi) if e.kind == 'return']
    ctx.paths += len(exits)
    cv = _self_attr('chain_vect')
    INT = ('ref', 'builtins.int')
    if not exits:
        ctx.undecided(rid, fi, c, 'no returning path')
        return
    bad = None
    n_enum = 0
    n_syn = 0
    for e in exits:
        stored = None
        for eff in e.state.effects:
            if eff[0] == 'setitem' and eff[1] == _self_attr('metrics') and eff[2] == C('chain_position'):
                stored = eff[3]
        for kw in _stored_call(e, ('emd.cycles.Cycles.add_cycle_metric', 'emd.cycles.Cycles._safe_add_metric')):
            if kw.get('name') == C('chain_position'):
                stored = kw.get('cycle_vals', kw.get('vals'))
                if kw.get('dtype') == INT:
                    stored = ('meth', 'astype', ('setitem', stored, ('call', 'numpy.isnan', (stored,), ()), C(-1)), (INT,), ())
        if stored is None:
            bad = (e, "a returning path does not store the 'chain_position' metric")
            break
        v, cast = _strip_cast(stored)
        v, rec = _strip_recode(v)
        if cast != INT:
            bad = (e, 'chain_position is not stored as an integer metric')
            break
        if rec != C(-1):
            bad = (e, 'cycles outside the subset (NaN after projection) are %s before the integer cast'
                   % ('not recoded' if rec is None else 'recoded to %s, not -1' % show(rec)))
            break
        if not (v[0] == 'call' and v[1] == CSUP + 'project_subset_to_cycles'):
            ctx.undecided(rid, fi, c, 'stored value is %s' % show(v)[:80])
            return
        a = dict(v[3])
        if a.get('subset_vect') != _self_attr('subset_vect'):
            bad = (e, 'projected with %s instead of the subset vector' % show(a.get('subset_vect', NONE))[:40])
            break
        arr = a.get('vals', NONE)
        loops = [ls for ls in e.state.loops if ls.kind == 'for']
        sem = _chain_position_enum(ctx, exits, e, arr, cv)
        if sem is not None:
            if sem[0] == 'bad':
                bad = (e, sem[1])
                break
            n_enum += sem[1]
            continue
        if len(loops) != 1:
            ctx.undecided(rid, fi, c, '%d loops' % len(loops))
            return
        ls = loops[0]
        mx = [('meth', 'max', cv, (), ()), ('call', 'numpy.max', (cv,), ()), ('call', 'builtins.max', (cv,), ())]
        stops = [('bin', '+', m, C(1)) for m in mx] + [('bin', '+', C(1), m) for m in mx]
        it = ls.iter_term
        if not (it[0] == 'call' and it[1] == 'builtins.range' and not it[3]):
            ctx.undecided(rid, fi, c, 'loop over %s' % show(it)[:60])
            return
        # a longer range only adds iterations with no member (harmless); a shorter one loses chains
        stops += [('bin', '+', m, C(k)) for m in mx for k in range(2, 6)]
        if not ((len(it[2]) == 1 and it[2][0] in stops) or (len(it[2]) == 2 and it[2][0] == C(0) and it[2][1] in stops)):
            bad = (e, 'the loop visits chains %s, not 0 .. chain_vect.max()' % show(it)[:60])
            break
        members = ('sub', ('call', 'numpy.where', (('cmp', '==', cv, ls.var),), ()), C(0))
        members2 = ('sub', ('call', 'numpy.where', (('cmp', '==', ls.var, cv),), ()), C(0))
        for kind, b in ls.body_states:
            sets = [eff for eff in b.effects if eff[0] == 'setitem']
            if len(sets) != 1 or kind not in ('back', 'continue'):
                bad = (e, 'an iteration of the chain loop writes %d times / leaves by %s' % (len(sets), kind))
                break
            eff = sets[0]
            if arr[0] != 's' or not str(arr[1]).startswith(str(eff[1][1]).split('@')[0] + '@'):
                bad = (e, 'the loop fills %s but %s is projected' % (show(eff[1])[:30], show(arr)[:30]))
                break
            idx, val = eff[2], eff[3]
            if idx not in (members, members2):
                if idx[0] == 'sub' and idx[1][0] == 'call' and idx[1][1] == 'numpy.where':
                    bad = (e, 'positions are written at %s, not at the members of chain %s' % (show(idx)[:70], show(ls.var)))
                    break
                ctx.undecided(rid, fi, c, 'members selected by %s' % show(idx)[:70])
                return
            want = [('call', 'numpy.arange', (('call', 'builtins.len', (idx,), ()),), ()),
                    ('call', 'numpy.arange', (C(0), ('call', 'builtins.len', (idx,), ())), ()),
                    ('call', 'numpy.arange', (('attr', idx, 'size'),), ()),
                    ('call', 'numpy.arange', (('sub', ('attr', idx, 'shape'), C(0)),), ())]
            if val not in want:
                bad = (e, 'members of a chain get %s, not 0, 1, 2, ...' % show(val)[:70])
                break
        if bad:
            break
        n_syn += 1
    if bad:
        ctx.violation(rid, fi, c, bad[1], node=bad[0].node, path=trace_tail(bad[0].state, 6))
    elif n_syn == 0 and n_enum == 0:
        ctx.undecided(rid, fi, c, 'no path whose positions could be read')
    else:
        ctx.passed(rid, fi, c, '%d path(s); %d chain vectors interpreted' % (len(exits), n_enum))


def _chain_position_enum(ctx, exits, e, arr, cv):
    """Vectorised chain positions: the projected vector `arr` of exit e interpreted on every chain vector of up to
    6 (7) selected cycles (chain labels start at 0 and grow by 0 or 1).  None when the term is outside the
    interpreted fragment (loop forms are read syntactically by the caller)."""
    import itertools
    from ..orderval import OrderEval, Undecided as OUndecided, Vec
    if any(t[0] == 's' and '@' in t[1] for t in subterms(arr)):
        return None
    nmax = 7 if ctx.tier == 'thorough' else 6
    n_ok = 0
    for n_ in range(1, nmax + 1):
        for steps in itertools.product((0, 1), repeat=n_ - 1):
            chain = [0]
            for st_ in steps:
                chain.append(chain[-1] + st_)
            want, seen = [], {}
            for ch in chain:
                want.append(seen.get(ch, 0))
                seen[ch] = seen.get(ch, 0) + 1
            oe = OrderEval({cv: Vec(chain)})
            try:
                live = True
                for cd, tr, ln in e.state.conds:
                    if cd[0] == 'cmp' and cd[1] in ('is', 'isnot') and cd[3] == NONE:
                        continue
                    if bool(oe.ev(cd)) != tr:
                        live = False
                        break
                if not live:
                    continue
                got = oe.ev(arr)
            except IndexError as ie:
                return 'bad', 'chain vector %s: %s' % (chain, ie)
            except OUndecided:
                return None
            except Exception:
                return None
            if not isinstance(got, list):
                return None
            if [int(x) if isinstance(x, (bool, int)) else x for x in got] != want:
                return 'bad', 'chain vector %s gives positions %s, expected %s' % (chain, list(got), want)
            n_ok += 1
    # n_ok == 0: the path conditions hold for no chain vector (a guard for "no chain at all")
    return ('ok', n_ok)


# ----------------------------------------------------------------------------------------------
# C15.R11: the tabular export agrees with the metrics and with the selection
def rule_dataframe(ctx, rid):
    """get_metric_dataframe: the table is built from the metric store; with subset=True the rows kept are the cycles
    matching the stored conditions, with explicit conditions the cycles matching those; rows are removed exactly
    where the match vector is false."""
    P = ctx.P
    fi = P.func('emd.cycles.Cycles.get_metric_dataframe')
    exits = Evaluator(P).run(fi)
    ctx.paths += len(exits)
    c = 'the exported table holds every metric and exactly the rows of the cycles matching the conditions in force'
    GMC = 'emd.cycles.Cycles.get_matching_cycles'
    bad = None
    n = 0
    for e in exits:
        if e.kind != 'return':
            continue
        subset = conds_given = None
        for cd, tr, ln in e.state.conds:
            if cd == S('subset'):
                subset = tr
            r = _is_none_test(cd, S('conditions'))
            if r is not None:
                conds_given = (not r) == tr
        v = e.value
        n += 1
        frames = [t for t in subterms(v) if (t[0] == 'call' and t[1].startswith('pandas.DataFrame')) or
                  (t[0] == 'call' and t[1] == 'pandas.DataFrame')]
        if not frames or not any(_self_attr('metrics') in set(subterms(f)) for f in frames):
            bad = (e, 'the table is not built from the metric store: %s' % show(v)[:80])
            break
        gm = [t for t in subterms(v) if t[0] == 'call' and t[1] == GMC]
        if subset is None or conds_given is None:
            ctx.undecided(rid, fi, c, 'a path is not selected by subset / conditions')
            return
        stored_none = _cond_truth(e, lambda cd: _is_none_test(cd, _self_attr('mask_conditions')))
        want = None
        if conds_given:
            want = S('conditions')
        elif subset and stored_none is not True:
            want = _self_attr('mask_conditions')
        if want is None:
            if gm:
                bad = (e, 'rows are filtered although no conditions are in force (subset=%s)' % subset)
                break
            continue
        if not gm:
            bad = (e, 'conditions are in force (%s) but no row is removed' % show(want))
            break
        kw = dict(gm[0][3])
        if kw.get('conditions') != want:
            bad = (e, 'rows are selected with %s instead of %s' % (show(kw.get('conditions', NONE))[:40], show(want)))
            break
        # polarity: rows dropped where the match is false / rows kept where it is true
        M = gm[0]
        neg_forms = [('cmp', '==', M, C(False)), ('un', '~', M), ('un', 'not', M), ('call', 'numpy.logical_not', (M,), ()),
                     ('call', 'numpy.invert', (M,), ()), ('cmp', '!=', M, C(True))]
        drops = [t for t in subterms(v) if t[0] == 'meth' and t[1] == 'drop']
        if drops:
            arg = drops[0][3][0] if drops[0][3] else dict(drops[0][4]).get('index', dict(drops[0][4]).get('labels', NONE))
            negs = [f for f in neg_forms if f in set(subterms(arg))]
            if not negs:
                bad = (e, 'the rows dropped are those where the cycle MATCHES the conditions (%s)' % show(arg)[:70])
                break
        else:
            # kept-rows forms: d[M], d.loc[M], d.iloc[np.where(M)[0]]
            keeps = [t for t in subterms(v) if t[0] == 'sub' and M in set(subterms(t[2]))]
            if not keeps:
                ctx.undecided(rid, fi, c, 'row selection %s' % show(v)[:80])
                return
            if any(f in set(subterms(keeps[0][2])) for f in neg_forms):
                bad = (e, 'the rows kept are those where the cycle does NOT match the conditions')
                break
    if bad:
        ctx.violation(rid, fi, c, bad[1], node=bad[0].node, path=trace_tail(bad[0].state, 6))
    elif n < 3:
        ctx.undecided(rid, fi, c, '%d returning paths' % n)
    else:
        ctx.passed(rid, fi, c, '%d returning paths' % n)


# ----------------------------------------------------------------------------------------------
# C15.R12: the slice-cache route and the augmented label route store, for every cycle, func of exactly that cycle's
# samples (NaN exactly when the cycle has no extent) - no path through the loop leaves a slot unwritten
def _is_nan(t):
    return t in (('ref', 'numpy.nan'), ('ref', 'numpy.NaN'), ('ref', 'math.nan'))


def _tuple_route(conds, vals_t):
    """True / False when the path conditions say that the values are / are not a tuple of vectors, else None"""
    for cd, tr, ln in conds:
        if cd[0] == 'call' and cd[1] == 'builtins.isinstance' and len(cd[2]) == 2 and cd[2][0] == vals_t \
                and cd[2][1] in (('ref', 'builtins.tuple'), ('tuple', (('ref', 'builtins.tuple'), ('ref', 'builtins.list'))),
                                 ('tuple', (('ref', 'builtins.list'), ('ref', 'builtins.tuple')))):
            return tr
    return None


def _func_of_extent(val, vals_t, extent, is_tuple=None, P=None, depth=0):
    """val == func(vals[extent])  or  func(*[v[extent] for v in vals])  (func = the parameter or its default)"""
    if val[0] == 'call' and P is not None and val[1] in P.funcs and depth < 3 and not val[2]:
        # a helper that applies the reducer (extracted by a refactoring): every return path of it, under the arguments
        # bound here, must be the reducer applied to exactly these values
        helper = P.funcs[val[1]]
        msg = None
        nret = 0
        for x in Evaluator(P).run(helper, args=dict(val[3])):
            if x.kind != 'return':
                continue
            nret += 1
            tr = _tuple_route(x.state.conds, vals_t)
            m = _func_of_extent(x.value, vals_t, extent, tr if tr is not None else is_tuple, P, depth + 1)
            msg = msg or m
        return msg if nret else 'the helper %s never returns' % val[1].split('.')[-1]
    if val[0] == 'callv':
        callee, fargs = val[1], val[2]
        if callee != S('func'):
            return 'the reducer applied is %s, not func' % show(callee)[:30]
    elif val[0] == 'call':
        fargs = val[2]
        if val[1] not in ('numpy.mean',):      # the default of func, resolved by the evaluator
            return 'the reducer applied is %s, not func' % val[1]
        if val[3]:
            return 'the reducer gets extra keywords: %s' % show(val)[:60]
    else:
        return 'the value stored is %s' % show(val)[:60]
    if len(fargs) == 1 and fargs[0] == ('sub', vals_t, extent):
        if is_tuple is True:
            return 'a tuple of value vectors is indexed as if it were one vector'
        return None
    if len(fargs) == 1 and fargs[0][0] == 'starred' and fargs[0][1][0] == 'comp' and len(fargs[0][1][3]) == 1:
        comp = fargs[0][1]
        var, it, conds = comp[3][0]
        if it == vals_t and not conds and comp[2] == ('sub', var, extent):
            if is_tuple is False:
                return 'a single value vector is unpacked element by element as if it were a tuple of vectors'
            return None
    return 'the reducer does not receive exactly the value vector(s) restricted to the cycle: %s' % show(val)[:90]


def rule_stat_routes(ctx, rid):
    P = ctx.P
    for name, kind in (('get_slice_stat_from_samples', 'slice'), ('get_augmented_cycle_stat_from_samples', 'augmented')):
        fi = P.func(CSUP + name)
        exits = [e for e in Evaluator(P).run(fi) if e.kind == 'return']
        ctx.paths += len(exits)
        c = 'every cycle gets func of exactly its own samples, NaN exactly when it has no extent (no slot left unwritten)'
        vals_t = S(fi.params[0])
        bad = None
        n = 0
        for e in exits:
            v = e.value
            if any(cd[0] == 'call' and cd[1] == 'builtins.isinstance' and len(cd[2]) == 2 and cd[2][1] == vals_t
                   for cd, tr, ln in e.state.conds):
                bad = (e, 'isinstance is asked whether a type is an instance of the values (arguments swapped): TypeError for '
                       'every input')
                break
            lst = v[2][0] if v[0] == 'call' and v[1] in ('numpy.array', 'numpy.asarray') and v[2] and not v[3] else None
            if kind == 'slice' and lst is not None and lst[0] == 's' and '@F' in lst[1] and lst[1].endswith('post'):
                # a list filled by exactly one append per iteration over the slices
                name_l = lst[1].split('@')[0]
                fors = [ls for ls in e.state.loops if ls.kind == 'for']
                if len(fors) != 1 or fors[0].iter_term != S('slices'):
                    ctx.undecided(rid, fi, c, 'list built in %d loops over %s' % (len(fors), show(fors[0].iter_term)[:40] if fors else '-'))
                    return
                ls = fors[0]
                extent = ls.var
                for knd, b in ls.body_states:
                    n += 1
                    apps = [f for f in b.effects if f[0] == 'mutcall' and f[1] == 'append' and f[5] == name_l]
                    noext = None
                    for cd, tr, ln in b.conds:
                        r = _is_none_test(cd, extent)
                        if r is not None:
                            noext = (r == tr)
                    if len(apps) != 1 or len(apps[0][3]) != 1:
                        bad = (e, 'a path through the loop appends %d values for one cycle' % len(apps))
                        break
                    val = apps[0][3][0]
                    if noext:
                        if not _is_nan(val):
                            bad = (e, 'a cycle without extent gets %s instead of NaN' % show(val)[:40])
                            break
                        continue
                    if noext is None:
                        bad = (e, 'the values are sliced without testing whether the cycle has a slice')
                        break
                    if _is_nan(val):
                        bad = (e, 'a cycle with samples gets NaN')
                        break
                    msg = _func_of_extent(val, vals_t, extent, _tuple_route(b.conds, vals_t), P)
                    if msg:
                        bad = (e, msg)
                        break
                if bad:
                    break
                continue
            if v[0] == 's' and '@F' in v[1] and v[1].endswith('post'):
                out = v[1].split('@')[0]
                fors = [ls for ls in e.state.loops if ls.kind == 'for']
                if len(fors) != 1:
                    ctx.undecided(rid, fi, c, '%d loops on a return path' % len(fors))
                    return
                ls = fors[0]
                if kind == 'slice':
                    if not (ls.var[0] == 'tuple' and len(ls.var[1]) == 2 and ls.iter_term == ('call', 'builtins.enumerate', (S('slices'),), ())):
                        if ls.iter_term == ('call', 'builtins.range', (('call', 'builtins.len', (S('slices'),), ()),), ()):
                            pos, extent = ls.var, ('sub', S('slices'), ls.var)
                        else:
                            ctx.undecided(rid, fi, c, 'loop over %s' % show(ls.iter_term)[:60])
                            return
                    else:
                        pos, extent = ls.var[1]
                else:
                    pos = ls.var
                    extent = ('call', CSUP + 'map_cycle_to_samples_augmented', (),
                              (('cycle_vect', S('cycle_vect')), ('ii', pos), ('phase', S('phase'))))
                    want_it = ('bin', '+', ('call', 'numpy.max', (S('cycle_vect'),), ()), C(1))
                    it = ls.iter_term
                    if not (it[0] == 'call' and it[1] == 'builtins.range' and len(it[2]) == 1 and it[2][0] == want_it):
                        bad = (e, 'the loop runs over %s, not over the labels 0..max' % show(it)[:50])
                        break
                init = ls.entry_env.get(out)
                nan_init = False
                if init is not None:
                    t_ = init
                    while t_[0] == 'meth' and t_[1] in ('astype', 'copy'):
                        t_ = t_[2]
                    if t_[0] == 'call' and t_[1] in ('numpy.full', 'numpy.full_like') and len(t_[2]) > 1 and _is_nan(t_[2][1]):
                        nan_init = True
                    if t_[0] == 'bin' and t_[1] in ('*', '+', '/') and (_is_nan(t_[3]) or _is_nan(t_[2])):
                        nan_init = True
                for knd, b in ls.body_states:
                    n += 1
                    if any(cd[0] == 'call' and cd[1] == 'builtins.isinstance' and len(cd[2]) == 2 and cd[2][1] == vals_t
                           for cd, tr, ln in b.conds):
                        bad = (e, 'isinstance is asked whether a type is an instance of the values (arguments swapped): TypeError '
                               'for every input')
                        break
                    sets = [f for f in b.effects if f[0] == 'setitem' and f[5] == out]
                    noext = None
                    for cd, tr, ln in b.conds:
                        r = _is_none_test(cd, extent)
                        if r is not None:
                            noext = (r == tr)
                    where = 'a cycle without extent' if noext else 'a cycle with samples'
                    if noext and not sets and nan_init:
                        continue        # the slot keeps the NaN it was allocated with
                    if len(sets) != 1:
                        bad = (e, '%s: %d stores into the result on one path through the loop (its slot %s)'
                               % (where, len(sets), 'keeps the initial value' if not sets else 'is written twice'))
                        break
                    idx, val = sets[0][2], sets[0][3]
                    if idx != pos:
                        bad = (e, 'the result of cycle %s is stored at %s' % (show(pos), show(idx)))
                        break
                    if noext:
                        if not _is_nan(val):
                            bad = (e, 'a cycle without extent gets %s instead of NaN' % show(val)[:40])
                            break
                        continue
                    if _is_nan(val):
                        bad = (e, 'a cycle with samples gets NaN (conditions: %s)' % '; '.join(
                            '%s=%s' % (show(cd)[:40], tr) for cd, tr, ln in b.conds[-2:]))
                        break
                    if noext is None and kind == 'slice':
                        bad = (e, 'the values are sliced without testing whether the cycle has a slice')
                        break
                    msg = _func_of_extent(val, vals_t, extent, _tuple_route(b.conds, vals_t), P)
                    if msg:
                        bad = (e, msg)
                        break
                if bad:
                    break
            elif v[0] == 'call' and v[1] in ('numpy.array', 'numpy.asarray') and v[2] and v[2][0][0] == 'comp':
                comp = v[2][0]
                if len(comp[3]) != 1 or comp[3][0][1] != S('slices') or comp[3][0][2]:
                    ctx.undecided(rid, fi, c, 'comprehension %s' % show(comp)[:80])
                    return
                extent = comp[3][0][0]
                elt = comp[2]
                n += 1
                if elt[0] == 'ifexp':
                    r = _is_none_test(elt[1], extent)
                    if r is None:
                        bad = (e, 'the element is selected by %s, not by `slice is None`' % show(elt[1])[:40])
                        break
                    some, none_ = (elt[3], elt[2]) if r else (elt[2], elt[3])
                    if not _is_nan(none_):
                        bad = (e, 'a cycle without extent gets %s instead of NaN' % show(none_)[:40])
                        break
                    msg = _func_of_extent(some, vals_t, extent, _tuple_route(e.state.conds, vals_t), P)
                    if msg:
                        bad = (e, msg)
                        break
                else:
                    bad = (e, 'the values are sliced without testing whether the cycle has a slice: %s' % show(elt)[:60])
                    break
            else:
                ctx.undecided(rid, fi, c, 'returns %s' % show(v)[:80])
                return
        if bad:
            ctx.violation(rid, fi, c, bad[1], node=bad[0].node, path=trace_tail(bad[0].state, 6))
        elif n == 0:
            ctx.undecided(rid, fi, c, 'no per-cycle computation found')
        else:
            ctx.passed(rid, fi, c, '%d per-cycle paths' % n)
