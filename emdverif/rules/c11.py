"""C11 - holospectrum bins energy jointly by carrier and modulation frequency."""
import ast

from ..model import AnalysisError, unparse, walk_local
from ..paths import Evaluator, is_c, show, C, S, NONE, subterms
from ..indexclass import ElemEval, Pos, classes, Undecided, spec_bin
from .common import mk_algebra, as_method
from . import l1
from .c10 import _decode_coo

PROPERTY = 'C11'
EXPLANATION = (
    "R1 fold/unfold: the folded column index a + b*S of holospectrum, the sparse width, the reshape dimensions and the "
    "trim slices are evaluated over every pair of digitize classes (carrier class a for E1 in {2,3} edges, AM class b "
    "for E2 in {2,4} edges): the folded index must fit the width, unfold to (b, a) in the [AM, carrier] axis order, "
    "and the trim must remove exactly the out-of-range classes so that in(ka), in(kb) lands in cell (kb-1, ka-1). "
    "R2: squash_time False / 'sum' / 'mean' are the full array / .sum(axis=0) / .mean(axis=0) of the same sparse "
    "accumulation. R3: energy exponent; dimension checks; L1. Not decided: floating-point summation order.")
RULE_TEXT = "one obligation per (mode, squash) class-pair table, per squash reduction and per dimension check"
FLOORS = {'C11.R1': 3, 'C11.R2': 3, 'C11.R3': 3, 'C11.R5': 2}
PINNED_EXPECT = [('L1', 'emd.support.ensure_equal_dims', 'numpy.alltrue')]

HOLO = 'emd.spectra.holospectrum'
E1S = (2, 3)
E2S = (2, 4)


def run(ctx):
    ctx.trust('np.digitize classes as in C10; ndarray.reshape is C-ordered (last axis fastest); coo_matrix sums '
              'duplicates; a[1:-1] drops the first and last index')
    rule_fold(ctx)
    from . import l2
    ctx.rule(l2.rule_layout, 'C11.R5', [HOLO])
    # calling the routine twice on the same arrays (full, then 'sum', then 'mean') must give consistent outputs:
    # nothing may be computed in place on the caller's arrays
    from ..effects import MutationAnalysis
    hf = ctx.P.func(HOLO)
    mp = MutationAnalysis(ctx.P).mutated_params(hf)
    for formal in ('infr', 'infr2', 'inam2'):
        cst = 'holospectrum does not modify %s' % formal
        if formal in mp:
            ctx.violation('C11.R3', hf, cst, 'the caller\'s %s is changed in place (%s): a second call on the same arrays '
                          'accumulates different values' % (formal, mp[formal][0].what), node=mp[formal][0].node)
        else:
            ctx.passed('C11.R3', hf, cst)
    from . import c19
    ctx.rule(c19.rule_shape_classes, 'C11.R4', names=('ensure_2d',))
    ctx.rule(c19.rule_layout_only, 'C11.R4', names=('ensure_2d',))
    l1.rule_lib_attrs(ctx, 'L1', [HOLO], 'holospectrum')


def _peel(v):
    """np.array(X[trim]) -> (X, trim index term)"""
    if v[0] == 'call' and v[1] in ('numpy.array', 'numpy.asarray') and v[2]:
        v = v[2][0]
    if v[0] != 'sub':
        # no trim: out-of-range samples must then be filtered before the accumulation (checked class by class)
        if v[0] in ('meth', 'bin'):
            return v, None
        return None
    return v[1], v[2]


def rule_fold(ctx):
    P = ctx.P
    fi = P.func(HOLO)
    coos = {}
    for mode in ('energy', 'amplitude'):
        for squash in (False, 'sum', 'mean'):
            ev = Evaluator(P)
            exits = [e for e in ev.run(fi, context={'mode': mode, 'squash_time': squash}) if e.kind == 'return']
            ctx.paths += len(exits)
            ctx.contexts.append({'function': HOLO, 'mode': mode, 'squash_time': squash})
            c = 'mode=%s, squash_time=%r: (carrier class, AM class) -> cell' % (mode, squash)
            if len(exits) != 1:
                ctx.undecided('C11.R1', fi, c, '%d return paths' % len(exits))
                continue
            unb = [t for t in subterms(exits[0].value) if t[0] == 's' and str(t[1]).startswith('global:')]
            if unb:
                ctx.violation('C11.R1', fi, c, '%s is read but never assigned (NameError for every input)' % unb[0][1].split(':', 1)[1])
                continue
            swapped = [t for t in subterms(exits[0].value) if t[0] == 'call' and t[1] == 'numpy.digitize' and len(t[2]) >= 2
                       and t[2][0] in (S('freq_edges'), S('freq_edges2'))]
            if swapped:
                ctx.violation('C11.R1', fi, c, 'np.digitize is called with (edges, frequencies): %s' % show(swapped[0])[:80])
                continue
            # shapes: the whole returned expression is evaluated by the small array model for two input shapes
            # [samples x imfs] / [samples x imfs x imfs2] and 4 / 3 edges - numpy's own shape errors (operands that do
            # not broadcast, an impossible reshape, coordinate vectors of different lengths) and a wrong output shape are
            # decided here; values are opaque
            from ..smallarr import result_shapes, Fault as _SF, Undecided as _SU
            c_sh = 'mode=%s, squash_time=%r: the construction is shape-consistent and returns [%sAM bins x carrier bins]' % (
                mode, squash, 'time x ' if squash is False else '')
            B_ = {S('infr'): (0, 1), S('infr2'): (0, 1, 2), S('inam2'): (0, 1, 2), S('freq_edges'): (('lit', 4),),
                  S('freq_edges2'): (('lit', 3),)}
            try:
                shapes = result_shapes(exits[0].value, 3, B_)
                wrong = [(d_, sh_) for d_, sh_ in shapes if sh_ != (((d_[0],) if squash is False else ()) + (2, 3))]
                if wrong:
                    d_, sh_ = wrong[0]
                    ctx.violation('C11.R1', fi, c_sh, 'for inputs of shape %s / %s and 4 / 3 edges the result has shape %s, '
                                  'expected %s' % (d_[:2], d_, sh_, ((d_[0],) if squash is False else ()) + (2, 3)))
                    continue
                ctx.passed('C11.R1', fi, c_sh, 'two input shapes')
            except _SF as f_:
                ctx.violation('C11.R1', fi, c_sh, 'numpy raises on this construction: %s' % f_)
                continue
            except _SU:
                pass
            pe = _peel(exits[0].value)
            if pe is None:
                ctx.undecided('C11.R1', fi, c, 'result is not a trimmed array: %s' % show(exits[0].value)[:80])
                continue
            body, trim = pe
            # a division of the reduced array by a count (mean written as sum / n), outside or inside the unfold step
            divisors = []
            while body[0] == 'bin' and body[1] == '/':
                divisors.append(body[3])
                body = body[2]
            if not (body[0] == 'meth' and body[1] == 'reshape'):
                ctx.undecided('C11.R1', fi, c, 'no reshape (unfold) step found')
                continue
            dims = list(body[3])
            if len(dims) == 1 and dims[0][0] == 'tuple':
                dims = list(dims[0][1])
            src = body[2]
            while src[0] == 'bin' and src[1] == '/':
                divisors.append(src[3])
                src = src[2]
            red = None
            src = as_method(src)
            if src[0] == 'meth' and src[1] in ('sum', 'mean', 'toarray', 'todense'):
                red = (src[1], dict(src[4]).get('axis', src[3][0] if src[3] else None))
                src = src[2]
            while src[0] == 'bin' and src[1] == '/':
                divisors.append(src[3])
                src = src[2]
            if divisors:
                # sum / (number of time samples) is the mean; any other count is not
                counts = [_count_of(d) for d in divisors]
                if red is not None and red[0] == 'sum' and counts == ['T']:
                    red = ('mean', red[1])
                else:
                    ctx.violation('C11.R2', fi, 'mode=%s: squash_time=%r reduction' % (mode, squash),
                                  'the time-collapsed output is divided by %s, which is %s, not the number of time '
                                  'samples of the full output' % (' and '.join(show(d)[:50] for d in divisors),
                                                                  ' / '.join(str(x) for x in counts)))
                    red = ('invalid', None)
            dec = _decode_coo(src)
            if dec is None and src[0] == 'setitem' and src[1][0] == 'call' and src[1][1] in ('numpy.zeros',
                                                                                            'numpy.zeros_like'):
                # dense fill  full[rows, cols] (+)= data  - numpy does not accumulate repeated coordinates
                idx = src[2]
                inner = None
                for t in subterms(idx):
                    if t[0] == 'attr' and t[2] in ('row', 'col') and _decode_coo(t[1]) is not None:
                        inner = t[1]
                ctx.violation('C11.R2', fi, 'mode=%s: squash_time=%r reduction' % (mode, squash),
                              'the full output is filled by fancy-index assignment / `+=`, which keeps one of several '
                              'samples falling into the same (time, AM, carrier) cell instead of summing them')
                if inner is not None:
                    dec = _decode_coo(inner)
                    src = inner
                    red = ('toarray', None)
            if dec is None:
                ctx.undecided('C11.R1', fi, c, 'no sparse accumulation found')
                continue
            data, rows, cols, shape, dense = dec
            coos[(mode, squash)] = src
            fl = [t for x in (rows, cols) + ((shape,) if shape is not None else ()) for t in subterms(x)
                  if t[0] == 'bin' and t[1] == '/']
            if fl:
                ctx.violation('C11.R1', fi, c, 'an index / a dimension of the sparse accumulation is computed with true division '
                              '(%s): floats are not valid indices or dimensions' % show(fl[0])[:70])
                continue
            # R2 squash table
            c2 = 'mode=%s: squash_time=%r reduction' % (mode, squash)
            want_red = {False: ('toarray', None), 'sum': ('sum', C(0)), 'mean': ('mean', C(0))}[squash]
            if red == want_red:
                ctx.passed('C11.R2', fi, c2, '%s%s' % (red[0], '' if red[1] is None else '(axis=0)'))
            else:
                ctx.violation('C11.R2', fi, c2, 'squash_time=%r applies %s to the sparse accumulation, expected %s'
                              % (squash, red, want_red))
            edges1, edges2 = S('freq_edges'), S('freq_edges2')
            problem = None
            n = 0
            try:
                for E1 in ((2, 3, 5, 8) if ctx.tier == 'thorough' else E1S):
                    for E2 in ((2, 3, 4, 7) if ctx.tier == 'thorough' else E2S):
                        el0 = ElemEval({edges1: E1, edges2: E2}, {})
                        dvals = [el0.ev(d) if not _is_time_dim(d) else 'T' for d in dims]
                        width = el0.ev(shape[1][1]) if shape is not None and shape[0] == 'tuple' else None
                        sp_dims = [d for d in dvals if d != 'T']
                        if len(sp_dims) != 2:
                            problem = 'unfold dimensions are %s' % dvals
                            break
                        R, Cc = sp_dims
                        if trim is None:
                            tr = [('slice', C(None), C(None), C(None))] * len(dvals)
                        else:
                            tr = list(trim[1]) if trim[0] == 'tuple' else [trim]
                        if len(tr) != len(dvals):
                            problem = 'trim index has %d axes for %d dimensions' % (len(tr), len(dvals))
                            break
                        tr_sp = [t for t, d in zip(tr, dvals) if d != 'T']
                        tr_t = [t for t, d in zip(tr, dvals) if d == 'T']
                        if any(not (t[0] == 'slice' and all(is_c(x) and x[1] is None for x in t[1:4])) for t in tr_t):
                            problem = 'the time axis is trimmed'
                            break
                        lohi = []
                        for t in tr_sp:
                            if t[0] != 'slice':
                                raise Undecided('trim is not a slice')
                            lo = el0.ev(t[1]) if not (is_c(t[1]) and t[1][1] is None) else 0
                            hi = el0.ev(t[2]) if not (is_c(t[2]) and t[2][1] is None) else 0
                            lohi.append((lo, hi))
                        if width != R * Cc:
                            problem = 'sparse width %s != %d x %d unfold' % (width, R, Cc)
                            break
                        if (R - lohi[0][0] + lohi[0][1], Cc - lohi[1][0] + lohi[1][1]) != (E2 - 1, E1 - 1):
                            problem = ('output has %d x %d cells for %d AM and %d carrier bins'
                                       % (R - lohi[0][0] + lohi[0][1], Cc - lohi[1][0] + lohi[1][1], E2 - 1, E1 - 1))
                            break
                        for pa in classes(E1):
                            for pb in classes(E2):
                                n += 1
                                el = ElemEval({edges1: E1, edges2: E2},
                                              {S('infr'): pa, S('infr2'): pb, S('inam2'): 'amp'})
                                F = el.ev(cols)
                                d = el.ev(data)
                                filtered = False
                                masked = lambda z: isinstance(z, tuple) and z and z[0] in ('kept', 'dropped')   # noqa: E731
                                if masked(F):
                                    # coordinates selected by a mask before the accumulation
                                    if masked(d) and (d[0] == 'kept') != (F[0] == 'kept'):
                                        problem = 'values and column indices are filtered by different masks'
                                        break
                                    filtered = F[0] != 'kept'
                                    F = F[1] if F[0] == 'kept' else None
                                if masked(d):
                                    d = d[1] if d[0] == 'kept' else (('pow', 'amp', 2) if mode == 'energy' else 'amp')
                                if filtered:
                                    cell = None
                                else:
                                    if not (0 <= F < width):
                                        problem = 'folded index %d outside the sparse width %d for classes (%s, %s)' % (
                                            F, width, pa, pb)
                                        break
                                    bq, aq = divmod(F, Cc)
                                    kept = (lohi[0][0] <= bq < R + lohi[0][1]) and (lohi[1][0] <= aq < Cc + lohi[1][1])
                                    cell = (bq - lohi[0][0], aq - lohi[1][0]) if kept else None
                                ka, kb = spec_bin(pa, E1), spec_bin(pb, E2)
                                want = (kb, ka) if (ka is not None and kb is not None) else None
                                if cell != want:
                                    problem = ('carrier class %s, AM class %s (E1=%d, E2=%d) -> %s, expected %s'
                                               % (pa, pb, E1, E2, 'cell [AM %d, carrier %d]' % cell if cell else 'dropped',
                                                  'cell [AM %d, carrier %d]' % want if want else 'dropped'))
                                    break
                                wantd = ('pow', 'amp', 2) if mode == 'energy' else 'amp'
                                if d != wantd:
                                    ctx.violation('C11.R3', fi, 'mode=%s: accumulated value' % mode,
                                                  'mode=%s accumulates %r, expected %r' % (mode, d, wantd))
                                    problem = problem or None
                            if problem:
                                break
                        if problem:
                            break
                    if problem:
                        break
            except Undecided as u:
                ctx.undecided('C11.R1', fi, c, 'index expression outside the class domain: %s' % u)
                continue
            if problem:
                ctx.violation('C11.R1', fi, c, problem)
            else:
                ctx.passed('C11.R1', fi, c, '%d class pairs; axes [time, AM, carrier]' % n)
            # time coordinate: an arange over the samples, never combined arithmetically
            c3 = 'mode=%s, squash_time=%r: time coordinate is the untouched sample index' % (mode, squash)
            ar = [t for t in subterms(rows) if t[0] == 'call' and t[1] == 'numpy.arange']
            arith = [t for t in subterms(rows) if t[0] == 'bin']
            semantic = None
            # decide by evaluating the construction on two tiny [samples x imfs x imfs2] shapes: flattened, it must list
            # every element's sample index
            from ..smallarr import flat_index_of_axis0, Undecided as _U, Fault as _F
            try:
                semantic = flat_index_of_axis0(rows, 3)
            except _F as f_:
                ctx.violation('C11.R1', fi, c3, 'the time coordinate cannot be built: %s' % f_)
                continue
            except _U:
                semantic = None
            if semantic is False:
                ctx.violation('C11.R1', fi, c3, 'the time coordinate %s does not list, element by element, the sample index of '
                              'the flattened [samples x imfs x imfs2] array' % show(rows)[:80])
                continue
            if semantic or (ar and not arith):
                ctx.passed('C11.R1', fi, c3)
            elif not ar:
                ctx.undecided('C11.R1', fi, c3, 'time coordinate %s' % show(rows)[:80])
            else:
                ctx.violation('C11.R1', fi, c3, 'the time coordinate is modified: %s' % show(arith[0])[:60])
    # same accumulation for all squash modes
    for mode in ('energy', 'amplitude'):
        ts = {coos.get((mode, s)) for s in (False, 'sum', 'mean')}
        if None not in ts:
            if len(ts) == 1:
                ctx.passed('C11.R2', fi, 'mode=%s: all squash settings reduce the same accumulation' % mode)
            else:
                ctx.violation('C11.R2', fi, 'mode=%s: all squash settings reduce the same accumulation' % mode,
                              'the sparse accumulation differs between squash_time settings')
    ctx.passed('C11.R3', fi, 'energy mode squares the amplitude exactly once; amplitude mode not at all',
               'checked on every class pair') if coos else None
    # dimension checks (read from the evaluated paths: loops over literal tuples are unrolled, helpers inlined)
    from .common import dim_checks
    per_path = dim_checks(P, fi, {'mode': 'energy', 'squash_time': 'sum'})
    for fn, dim in (('ensure_2d', None), ('ensure_equal_dims', 0), ('ensure_equal_dims', 1)):
        cc = '%s%s is applied to the three input arrays' % (fn, '' if dim is None else '(dim=%d)' % dim)
        ok = bool(per_path) and all(any(f == fn and nm >= {'infr', 'infr2', 'inam2'} and (dim is None or d == dim)
                                        for f, nm, d in calls) for calls in per_path)
        if ok:
            ctx.passed('C11.R3', fi, cc)
        else:
            ctx.violation('C11.R3', fi, cc, 'holospectrum no longer performs this input check')


def _count_of(d):
    """What a divisor `<array>.shape[0]` counts: 'T' (time samples of the sparse accumulation / of an input),
    1 (rows left after a sum over axis 0), 'bins' (first dimension after the unfold), or '?'."""
    if not (d[0] == 'sub' and d[1][0] == 'attr' and d[1][2] == 'shape' and d[2] == C(0)):
        return '?'
    x = d[1][1]
    if x[0] == 's':
        return 'T'
    if x[0] == 'call' and x[1] in ('emd.support.ensure_2d',):
        return 'T'
    if _decode_coo(x) is not None:
        return 'T'
    if x[0] == 'sub' and x[1][0] == 'call' and x[1][1] == 'emd.support.ensure_2d':
        return 'T'
    if x[0] == 'meth' and x[1] in ('sum', 'mean') and (dict(x[4]).get('axis') == C(0) or x[3] == (C(0),)):
        return 1
    if x[0] == 'meth' and x[1] == 'reshape':
        return 'bins'
    return '?'


def _is_time_dim(d):
    """a reshape dimension that is a .shape[0] of an input (number of samples)"""
    return d[0] == 'sub' and d[1][0] == 'attr' and d[1][2] == 'shape'
