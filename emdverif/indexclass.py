"""D3 - index classes of np.digitize and their images (elementwise abstract evaluation).

An input value is abstracted by its *position class* relative to a sorted edge
vector with E entries:  below | in(k) (edge_k <= x < edge_k+1, k = 1..E-1, counted
like digitize) | at_last (x == last edge) | above | nan.   A term that computes
an index from such a value is evaluated class by class with the transfer
functions below (digitize, +/- constants, comparisons, masked stores, boolean
filters).  Nothing of the analysed code runs; E is instantiated to a few small
values and every class is enumerated, which is exhaustive for expressions that
are affine/piecewise-affine in (E, k).
"""
from .paths import is_c, show


class Undecided(Exception):
    pass


class Fault(Undecided):
    """The expression is not merely outside the interpreted fragment: numpy raises on it for every input
    (e.g. `mask_a - mask_b` on boolean arrays is a TypeError)."""


class Pos:
    __slots__ = ('kind', 'k')

    def __init__(self, kind, k=None):
        self.kind, self.k = kind, k

    def __repr__(self):
        return '%s(%d)' % (self.kind, self.k) if self.kind in ('in', 'at') else self.kind

    def __eq__(self, o):
        return isinstance(o, Pos) and (self.kind, self.k) == (o.kind, o.k)

    def __hash__(self):
        return hash((self.kind, self.k))


def classes(E, with_nan=True):
    out = [Pos('below')]
    for k in range(1, E):
        out.append(Pos('at', k))        # x == edge_k
        out.append(Pos('in', k))        # edge_k < x < edge_k+1
    out += [Pos('at', E), Pos('above')]
    if with_nan:
        out.append(Pos('nan'))
    return out


def digitize(p, E):
    """np.digitize(x, edges) == np.searchsorted(edges, x, side='right') for increasing edges"""
    if p.kind == 'below':
        return 0
    if p.kind in ('in', 'at'):
        return p.k      # edge_k <= x < edge_k+1 ; at(E) gives E
    return E            # above and nan map to len(edges)


def searchsorted_left(p, E):
    """np.searchsorted(edges, x) (side='left'): number of edges strictly below x"""
    if p.kind == 'below':
        return 0
    if p.kind == 'at':
        return p.k - 1
    if p.kind == 'in':
        return p.k
    return E


def spec_bin(p, E):
    """0-based bin of the half-open intervals [edge_k, edge_k+1), None when out of range"""
    if p.kind in ('in', 'at') and p.k <= E - 1:
        return p.k - 1
    return None


NAN = Pos('nan')
IDENTITY_METH = {'copy', 'reshape', 'ravel', 'flatten', 'astype', 'squeeze', 'toarray'}
IDENTITY_CALL = {'numpy.array', 'numpy.asarray', 'numpy.asanyarray', 'numpy.squeeze', 'numpy.broadcast_to',
                 'numpy.ravel', 'numpy.reshape', 'emd.support.ensure_2d', 'emd.support.ensure_vector',
                 'emd.support.ensure_1d_with_singleton'}


class ElemEval:
    """Evaluate a term for ONE element.  `bind` maps terms to values (Pos, int, bool, 'amp')."""

    def __init__(self, E, bind, edges_terms=()):
        """E: int (one edge vector) or dict edges_term -> number of edges."""
        self.bind = dict(bind)
        if isinstance(E, dict):
            self.Emap = dict(E)
            self.edges = set(E)
        else:
            self.edges = set(edges_terms)
            self.Emap = {e: E for e in self.edges}

    def ev(self, t):
        if t in self.bind:
            return self.bind[t]
        k = t[0]
        if k == 'c':
            return t[1]
        if k == 'ref' and t[1] in ('numpy.nan', 'numpy.NaN', 'math.nan'):
            return NAN
        if k == 'call':
            name = t[1]
            if name == 'numpy.digitize' and len(t[2]) >= 2:
                x = self.ev(t[2][0])
                if not isinstance(x, Pos):
                    raise Undecided('digitize of a non-position value')
                if t[2][1] not in self.edges:
                    raise Undecided('digitize against unknown edges %s' % show(t[2][1])[:40])
                if dict(t[3]).get('right', ('c', False)) != ('c', False):
                    raise Undecided('digitize(right=True)')
                return digitize(x, self.Emap[t[2][1]])
            if name == 'numpy.searchsorted' and len(t[2]) >= 2 and t[2][0] in self.edges:
                x = self.ev(t[2][1])
                if not isinstance(x, Pos):
                    raise Undecided('searchsorted of a non-position value')
                side = dict(t[3]).get('side', t[2][2] if len(t[2]) > 2 else ('c', 'left'))
                if side == ('c', 'right'):
                    return digitize(x, self.Emap[t[2][0]])
                if side == ('c', 'left'):
                    return searchsorted_left(x, self.Emap[t[2][0]])
                raise Undecided('searchsorted side')
            if name == 'builtins.len' and len(t[2]) == 1 and t[2][0] in self.edges:
                return self.Emap[t[2][0]]
            if name in IDENTITY_CALL and t[2]:
                a = t[2][0]
                return self.ev(a)
            if name in IDENTITY_CALL and t[3]:
                lst = dict(t[3]).get('to_check')
                if lst is not None and lst[0] in ('list', 'tuple') and len(lst[1]) == 1:
                    return self.ev(lst[1][0])
                # ensure_*([a, b], ...) -> evaluated through the subscript of its result
                raise Undecided('ensure on a list')
            if name in ('numpy.any', 'numpy.all') and t[2]:
                inner = t[2][0]
                if inner[0] == 'sub' and inner[1] == ('ref', 'numpy.c_'):
                    ax = dict(t[3]).get('axis', t[2][1] if len(t[2]) > 1 else ('c', None))
                    if ax not in (('c', 1), ('c', -1)):
                        raise Fault('np.%s over the column-stacked conditions reduces %s instead of along axis 1: the '
                                    'per-sample filter collapses to %s' % (name.split('.')[1],
                                                                          'over all elements' if ax == ('c', None) else 'along axis %s' % show(ax),
                                                                          'one value' if ax == ('c', None) else 'one value per condition'))
                    parts = inner[2][1] if inner[2][0] == 'tuple' else (inner[2],)
                    vals = [bool(self.ev(p)) for p in parts]
                    return any(vals) if name == 'numpy.any' else all(vals)
                if inner[0] == 'call' and inner[1] in ('numpy.stack', 'numpy.array', 'numpy.asarray', 'numpy.vstack') \
                        and len(inner[2]) == 1 and inner[2][0][0] in ('tuple', 'list') \
                        and dict(inner[3]).get('axis', ('c', 0)) == ('c', 0):
                    # np.all(np.stack((c1, c2, ...)), axis=0): the conditions stacked on a new leading axis and reduced
                    # along it - elementwise conjunction / disjunction
                    ax = dict(t[3]).get('axis', t[2][1] if len(t[2]) > 1 else ('c', None))
                    if ax != ('c', 0):
                        raise Fault('np.%s over the stacked conditions is not reduced along the stacking axis 0 (%s)'
                                    % (name.split('.')[1], 'all elements' if ax == ('c', None) else 'axis %s' % show(ax)))
                    vals = [bool(self.ev(p)) for p in inner[2][0][1]]
                    return any(vals) if name == 'numpy.any' else all(vals)
                raise Undecided('reduction %s' % name)
            if name in ('numpy.logical_and.reduce', 'numpy.logical_or.reduce') and t[2] and t[2][0][0] in ('tuple', 'list'):
                vals = [bool(self.ev(p)) for p in t[2][0][1]]
                return all(vals) if 'and' in name else any(vals)
            if name in ('numpy.logical_and', 'numpy.logical_or') and len(t[2]) == 2:
                a, b = bool(self.ev(t[2][0])), bool(self.ev(t[2][1]))
                return (a and b) if name.endswith('and') else (a or b)
            if name == 'numpy.logical_not' and len(t[2]) == 1:
                return not bool(self.ev(t[2][0]))
            if name == 'numpy.isnan' and len(t[2]) == 1:
                v = self.ev(t[2][0])
                return isinstance(v, Pos) and v.kind == 'nan'
            if name in ('numpy.power',) and len(t[2]) == 2:
                return ('pow', self.ev(t[2][0]), self.ev(t[2][1]))
            if len(t[2]) == 1:
                v = self.ev(t[2][0])
                if isinstance(v, str) or (isinstance(v, tuple) and v and v[0] in ('pow', 'f')):
                    return ('f', name, v)       # some function of the accumulated amplitude
            raise Undecided('call %s' % name)
        if k == 'meth':
            if t[1] == 'reshape' and len(t[3]) == 1 and t[3][0][0] == 'c' and isinstance(t[3][0][1], int) and t[3][0][1] != -1:
                raise Fault('reshape(%d) of a per-sample array: only reshape(-1) flattens it (numpy raises for every '
                            'non-trivial input)' % t[3][0][1])
            if t[1] == 'reshape' and len(t[3]) == 1 and t[3][0][0] == 'un' and t[3][0][1] == '-' and t[3][0][2][0] == 'c' \
                    and t[3][0][2][1] != 1:
                raise Fault('reshape(-%s) of a per-sample array: only reshape(-1) flattens it' % (t[3][0][2][1],))
            if t[1] in IDENTITY_METH:
                return self.ev(t[2])
            raise Undecided('method .%s' % t[1])
        if k == 'attr' and t[2] == 'T':
            return self.ev(t[1])
        if k == 'sub':
            base, idx = t[1], t[2]
            # ensure_2d([a, b], ...)[i] -> a / b
            if base[0] == 'call' and base[1] in IDENTITY_CALL and is_c(idx) and isinstance(idx[1], int):
                lst = base[2][0] if base[2] else dict(base[3]).get('to_check')
                if lst is not None and lst[0] in ('list', 'tuple'):
                    return self.ev(lst[1][idx[1]])
            if base in self.edges and is_c(idx):
                return ('edge', idx[1])
            from .poly import _shape_only_index
            if _shape_only_index(idx):
                return self.ev(base)
            # boolean filter: element kept iff mask true
            try:
                m = self.ev(idx)
            except Undecided:
                raise
            if isinstance(m, bool):
                return ('kept', self.ev(base)) if m else ('dropped',)
            raise Undecided('subscript %s' % show(idx)[:40])
        if k == 'setitem':
            base, mask, val = t[1], t[2], t[3]
            m = self.ev(mask)
            if not isinstance(m, bool):
                raise Undecided('store with a non-boolean index')
            return self.ev(val) if m else self.ev(base)
        if k == 'un':
            v = self.ev(t[2])
            if t[1] in ('~', 'not'):
                return not bool(v)
            if t[1] == '-':
                return -v
        if k == 'bin':
            a, b = self.ev(t[2]), self.ev(t[3])
            op = t[1]
            if isinstance(a, bool) and isinstance(b, bool):
                if op in ('+', '|'):
                    return a or b
                if op in ('*', '&'):
                    return a and b
                if op == '^':
                    return a != b
                if op == '-':
                    raise Fault('boolean masks are subtracted (`-` on boolean arrays is a TypeError in numpy; use `^` or '
                                '`&~`)')
            if op == '**':
                return ('pow', a, b)
            if isinstance(a, (int, float)) and isinstance(b, (int, float)) and not isinstance(a, bool) \
                    and not isinstance(b, bool):
                if op == '+':
                    return a + b
                if op == '-':
                    return a - b
                if op == '*':
                    return a * b
                if op == '//':
                    return a // b
                if op == '%':
                    return a % b
            raise Undecided('arithmetic %s on %r, %r' % (op, a, b))
        if k == 'cmp':
            a, b = self.ev(t[2]), self.ev(t[3])
            return self._cmp(t[1], a, b)
        if k in ('and', 'or'):
            vals = [bool(self.ev(x)) for x in t[1]]
            return all(vals) if k == 'and' else any(vals)
        raise Undecided('term %s' % show(t)[:50])

    def _cmp(self, op, a, b):
        import operator
        OPS = {'<': operator.lt, '<=': operator.le, '>': operator.gt, '>=': operator.ge, '==': operator.eq,
               '!=': operator.ne}
        if isinstance(a, Pos) and isinstance(b, tuple) and b and b[0] == 'edge':
            return self._pos_vs_edge(op, a, b[1])
        if isinstance(b, Pos) and isinstance(a, tuple) and a and a[0] == 'edge':
            flip = {'<': '>', '<=': '>=', '>': '<', '>=': '<=', '==': '==', '!=': '!='}
            return self._pos_vs_edge(flip[op], b, a[1])
        if isinstance(a, (int, float)) and isinstance(b, (int, float)):
            return OPS[op](a, b)
        raise Undecided('comparison %r %s %r' % (a, op, b))

    def _pos_vs_edge(self, op, p, which):
        """x (op) edges[0] / edges[-1] ; strict position: 'in(k)' lies in [edge_k, edge_k+1)"""
        if p.kind == 'nan':
            return op == '!='
        E = max(self.Emap.values()) if len(set(self.Emap.values())) == 1 else None
        if not isinstance(which, int) or isinstance(which, bool):
            raise Undecided('comparison with edge %r' % (which,))
        if which < 0 and E is None:
            raise Undecided('comparison with an edge counted from the end of one of several edge vectors')
        e = which + 1 if which >= 0 else E + which + 1          # 1-based number of the edge compared with
        if E is not None and not 1 <= e <= E:
            raise Fault('edges[%d] does not exist for %d edges' % (which, E))
        # position on the edge scale: below = 0.5, at(k) = k, in(k) = k + 0.5, above = E + 0.5
        if p.kind == 'below':
            pos = 0.5
        elif p.kind == 'at':
            pos = float(p.k)
        elif p.kind == 'in':
            pos = p.k + 0.5
        else:
            if E is None:
                raise Undecided('position above one of several edge vectors')
            pos = E + 0.5
        rel = (pos > e) - (pos < e)
        return {'<': rel < 0, '<=': rel <= 0, '>': rel > 0, '>=': rel >= 0, '==': rel == 0, '!=': rel != 0}[op]
