"""E4 - boolean / comparison normal forms of terms.

nnf(term) -> nested ('and'|'or', frozenset(children)) | ('lit', canonical string, polarity)
Comparators are oriented (`a > b` == `b < a`), negation is pushed to the leaves
(`not a < b` == `b <= a`), `x == False` / `x is False` == `not x`, `bool(x)` == x.
"""
from .paths import is_c

FLIP = {'>': '<', '>=': '<=', '<': '>', '<=': '>=', '==': '==', '!=': '!='}
NEGC = {'<': '>=', '<=': '>', '>': '<=', '>=': '<', '==': '!=', '!=': '=='}


def orient(op, a, b):
    """canonical orientation: only < <= == != ; for == and != sort operands."""
    if op in ('>', '>='):
        return FLIP[op], b, a
    return op, a, b


def nnf(t, alg, neg=False):
    k = t[0]
    if k == 'un' and t[1] == 'not':
        return nnf(t[2], alg, not neg)
    if k in ('and', 'or'):
        kind = k if not neg else ('or' if k == 'and' else 'and')
        kids = frozenset(nnf(x, alg, neg) for x in t[1])
        return _flat(kind, kids)
    if k == 'call' and t[1] in ('builtins.bool', 'numpy.bool_') and len(t[2]) == 1:
        return nnf(t[2][0], alg, neg)
    if k == 'call' and t[1] in ('numpy.logical_and', 'numpy.logical_or') and len(t[2]) == 2:
        base = 'and' if t[1].endswith('and') else 'or'
        return nnf((base, tuple(t[2])), alg, neg)
    if k == 'call' and t[1] == 'numpy.logical_not' and len(t[2]) == 1:
        return nnf(t[2][0], alg, not neg)
    if k == 'bin' and t[1] in ('&', '|') and _boolish(t[2]) and _boolish(t[3]):
        return nnf(('and' if t[1] == '&' else 'or', (t[2], t[3])), alg, neg)
    if k == 'un' and t[1] == '~' and _boolish(t[2]):
        return nnf(t[2], alg, not neg)
    if k == 'bin' and t[1] == '*' and _boolish(t[2]) and _boolish(t[3]):
        return nnf(('and', (t[2], t[3])), alg, neg)
    if k == 'cmp':
        op, a, b = t[1], t[2], t[3]
        # x == False / x is False / x != True  -> not x
        if op in ('==', 'is', '!=', 'isnot') and is_c(b) and isinstance(b[1], bool):
            same = op in ('==', 'is')
            want = b[1] if same else (not b[1])
            return nnf(a, alg, neg if want else (not neg))
        if op in ('==', 'is', '!=', 'isnot') and is_c(a) and isinstance(a[1], bool):
            same = op in ('==', 'is')
            want = a[1] if same else (not a[1])
            return nnf(b, alg, neg if want else (not neg))
        if op in NEGC:
            if neg:
                op = NEGC[op]
            op, a, b = orient(op, a, b)
            ca, cb = alg.canon(a), alg.canon(b)
            if op in ('==', '!=') and cb < ca:
                ca, cb = cb, ca
            return ('lit', '%s %s %s' % (ca, op, cb), True)
    return ('lit', alg.canon(t), not neg)


def _boolish(t):
    """comparisons and boolean combinations of them (elementwise masks)"""
    if t[0] == 'cmp':
        return True
    if t[0] in ('and', 'or'):
        return True
    if t[0] == 'un' and t[1] in ('~', 'not'):
        return _boolish(t[2])
    if t[0] == 'bin' and t[1] in ('&', '|'):
        return _boolish(t[2]) and _boolish(t[3])
    if t[0] == 'call' and t[1] in ('numpy.logical_and', 'numpy.logical_or', 'numpy.logical_not', 'numpy.isnan',
                                   'numpy.any', 'numpy.all'):
        return True
    return False


def _flat(kind, kids):
    out = set()
    for c in kids:
        if c[0] == kind:
            out |= set(c[1])
        else:
            out.add(c)
    if len(out) == 1:
        return next(iter(out))
    return (kind, frozenset(out))


def show_nnf(n):
    if n[0] == 'lit':
        return ('' if n[2] else 'not ') + n[1]
    return '(' + (' %s ' % n[0]).join(sorted(show_nnf(c) for c in n[1])) + ')'
