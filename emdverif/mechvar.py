"""Mechanical behaviour-preserving rewrites of the analysed modules, generated from the CURRENT /repo sources with
ast transformers and written back with ast.unparse (comments and layout are lost, which is itself part of the test:
every line number changes).  Each variant rewrites every applicable site of every analysed module at once.

  unparse    no change other than the round trip through ast.unparse (layout, parentheses, quotes, line numbers)
  swapif     if c: A else: B          ->  if not c: B else: A        (every if with an else branch, elif chains too)
  flipcmp    a < b                    ->  b > a                       (single comparisons with <, <=, >, >=, ==, !=)
  augexpand  n += 1                   ->  n = n + 1                   (plain names, numeric literal on the right)
  notnot     while c: / if c:         ->  while not (not c):          (double negation of every loop / branch test)
  unelse     if c: ..; return A  else: B   ->  if c: ..; return A  followed by B   (also raise / continue / break)
  demorgan   if a and b:              ->  if not (not a or not b):    (tests of if / while)
  npfunc     x.sum(axis=1)            ->  np.sum(x, axis=1)           (sum, mean, std, max, min, cumsum)
  tempvar    A[i] = expr / return expr ->  _t = expr; A[i] = _t / _r = expr; return _r
  comp2loop  x = [E(v) for v in IT]   ->  x = []; for v_ in IT: x.append(E(v_))
  ternary    if c: x = a else: x = b  ->  x = a if c else b
  commute    a * b -> b * a,  x + 1 -> 1 + x   (no string / list operand)
  fstring    'text {0}'.format(a)     ->  f'text {a}'
  rename     every function-level local renamed (tools/alpha_rename.py, applied to the sources directly)

usage: python -m emdverif.mechvar list | write <kind> <dir>   (writes <dir>/emd/*.py, for confirmation with the pinned
test-suite in a scratch worktree - tools/mech_confirm.sh).  `overrides(kind)` is what selfval / the thorough tier use:
every check must exit 0 on every variant with the same number of obligations as on the unchanged tree."""
import ast
import os
import sys

REPO = os.environ.get('EMD_VERIF_REPO', '/repo')
FILES = ['emd/sift.py', 'emd/spectra.py', 'emd/cycles.py', 'emd/_cycles_support.py', 'emd/utils.py',
         'emd/support.py', 'emd/logger.py']
KINDS = ['unparse', 'swapif', 'flipcmp', 'augexpand', 'notnot', 'rename', 'unelse', 'demorgan', 'npfunc', 'tempvar', 'comp2loop', 'ternary', 'commute', 'fstring']

MIRROR = {ast.Lt: ast.Gt, ast.Gt: ast.Lt, ast.LtE: ast.GtE, ast.GtE: ast.LtE, ast.Eq: ast.Eq, ast.NotEq: ast.NotEq,
          ast.Is: ast.Is, ast.IsNot: ast.IsNot}


class SwapIf(ast.NodeTransformer):
    def visit_If(self, node):
        self.generic_visit(node)
        if node.orelse:
            node.test = ast.UnaryOp(op=ast.Not(), operand=node.test)
            node.body, node.orelse = node.orelse, node.body
        return node


class FlipCmp(ast.NodeTransformer):
    def visit_Compare(self, node):
        self.generic_visit(node)
        if len(node.ops) == 1 and type(node.ops[0]) in MIRROR:
            return ast.Compare(left=node.comparators[0], ops=[MIRROR[type(node.ops[0])]()], comparators=[node.left])
        return node


class AugExpand(ast.NodeTransformer):
    def visit_AugAssign(self, node):
        self.generic_visit(node)
        if isinstance(node.target, ast.Name) and isinstance(node.value, ast.Constant) \
                and isinstance(node.value.value, (int, float)) and not isinstance(node.value.value, bool):
            return ast.Assign(targets=[ast.Name(id=node.target.id, ctx=ast.Store())],
                              value=ast.BinOp(left=ast.Name(id=node.target.id, ctx=ast.Load()), op=node.op,
                                              right=node.value), type_comment=None)
        return node


class NotNot(ast.NodeTransformer):
    def _nn(self, t):
        return ast.UnaryOp(op=ast.Not(), operand=ast.UnaryOp(op=ast.Not(), operand=t))

    def visit_If(self, node):
        self.generic_visit(node)
        node.test = self._nn(node.test)
        return node

    def visit_While(self, node):
        self.generic_visit(node)
        node.test = self._nn(node.test)
        return node


class UnElse(ast.NodeTransformer):
    """if c: ...; return A  else: B      ->      if c: ...; return A   followed by B"""
    def _block(self, stmts):
        out = []
        for st in stmts:
            st = self.visit(st)
            if isinstance(st, ast.If) and st.orelse and isinstance(st.body[-1], (ast.Return, ast.Raise, ast.Continue, ast.Break)):
                tail = st.orelse
                st.orelse = []
                out.append(st)
                out.extend(tail)
            else:
                out.append(st)
        return out

    def generic_visit(self, node):
        for field in ('body', 'orelse', 'finalbody'):
            v = getattr(node, field, None)
            if isinstance(v, list) and v and isinstance(v[0], ast.stmt):
                setattr(node, field, self._block(v))
        for h in getattr(node, 'handlers', []):
            h.body = self._block(h.body)
        return node


NP_REDUCERS = {'sum', 'mean', 'std', 'max', 'min', 'cumsum'}


class NpFunc(ast.NodeTransformer):
    """x.sum(axis=1)  ->  np.sum(x, axis=1)   for the array reductions (receivers in these modules are arrays)"""
    def visit_Call(self, node):
        self.generic_visit(node)
        if isinstance(node.func, ast.Attribute) and node.func.attr in NP_REDUCERS \
                and not (isinstance(node.func.value, ast.Name) and node.func.value.id in ('np', 'numpy', 'logging', 'self')):
            return ast.Call(func=ast.Attribute(value=ast.Name(id='np', ctx=ast.Load()), attr=node.func.attr, ctx=ast.Load()),
                            args=[node.func.value] + list(node.args), keywords=node.keywords)
        return node


class DeMorgan(ast.NodeTransformer):
    """in the tests of if / while:   a and b  ->  not (not a or not b);   a or b  ->  not (not a and not b)"""
    def _dm(self, t):
        if isinstance(t, ast.BoolOp):
            vals = [ast.UnaryOp(op=ast.Not(), operand=self._dm(v)) for v in t.values]
            other = ast.Or() if isinstance(t.op, ast.And) else ast.And()
            return ast.UnaryOp(op=ast.Not(), operand=ast.BoolOp(op=other, values=vals))
        return t

    def visit_If(self, node):
        self.generic_visit(node)
        node.test = self._dm(node.test)
        return node

    def visit_While(self, node):
        self.generic_visit(node)
        node.test = self._dm(node.test)
        return node


class _Blocks(ast.NodeTransformer):
    """base: rewrites statement lists (a statement may become several)"""
    def stmt(self, st):
        return [st]

    def _block(self, stmts):
        out = []
        for st in stmts:
            st = self.visit(st)
            out.extend(self.stmt(st))
        return out

    def generic_visit(self, node):
        for field in ('body', 'orelse', 'finalbody'):
            v = getattr(node, field, None)
            if isinstance(v, list) and v and isinstance(v[0], ast.stmt):
                setattr(node, field, self._block(v))
        for h in getattr(node, 'handlers', []):
            h.body = self._block(h.body)
        return node


class TempVar(_Blocks):
    """A[i] = expr  ->  _t = expr; A[i] = _t        return expr  ->  _r = expr; return _r"""
    n = 0

    def stmt(self, st):
        if isinstance(st, ast.Assign) and len(st.targets) == 1 and isinstance(st.targets[0], ast.Subscript) \
                and not isinstance(st.value, (ast.Name, ast.Constant)):
            TempVar.n += 1
            nm = '_tmp%d' % TempVar.n
            return [ast.Assign(targets=[ast.Name(id=nm, ctx=ast.Store())], value=st.value, type_comment=None),
                    ast.Assign(targets=st.targets, value=ast.Name(id=nm, ctx=ast.Load()), type_comment=None)]
        if isinstance(st, ast.Return) and st.value is not None and not isinstance(st.value, (ast.Name, ast.Constant)):
            TempVar.n += 1
            nm = '_ret%d' % TempVar.n
            return [ast.Assign(targets=[ast.Name(id=nm, ctx=ast.Store())], value=st.value, type_comment=None),
                    ast.Return(value=ast.Name(id=nm, ctx=ast.Load()))]
        return [st]


class Comp2Loop(_Blocks):
    """x = [E(v) for v in IT]  ->  x = []; for v_ in IT: x.append(E(v_))    (one generator, no condition, plain names)"""
    n = 0

    def stmt(self, st):
        if isinstance(st, ast.Assign) and len(st.targets) == 1 and isinstance(st.targets[0], ast.Name) \
                and isinstance(st.value, ast.ListComp) and len(st.value.generators) == 1 \
                and not st.value.generators[0].ifs and not st.value.generators[0].is_async \
                and isinstance(st.value.generators[0].target, ast.Name):
            g = st.value.generators[0]
            tgt = st.targets[0].id
            # the list must not be read by its own element expression / iterable
            if any(isinstance(m, ast.Name) and m.id == tgt for m in ast.walk(st.value)):
                return [st]
            Comp2Loop.n += 1
            old, new = g.target.id, '%s_c%d' % (g.target.id, Comp2Loop.n)

            class Ren(ast.NodeTransformer):
                def visit_Name(self, node):
                    return ast.Name(id=new, ctx=node.ctx) if node.id == old else node
            elt = Ren().visit(st.value.elt)
            return [ast.Assign(targets=[ast.Name(id=tgt, ctx=ast.Store())], value=ast.List(elts=[], ctx=ast.Load()),
                               type_comment=None),
                    ast.For(target=ast.Name(id=new, ctx=ast.Store()), iter=g.iter,
                            body=[ast.Expr(value=ast.Call(func=ast.Attribute(value=ast.Name(id=tgt, ctx=ast.Load()),
                                                                             attr='append', ctx=ast.Load()),
                                                          args=[elt], keywords=[]))],
                            orelse=[], type_comment=None)]
        return [st]


class Ternary(ast.NodeTransformer):
    """if c: x = a  else: x = b   ->   x = a if c else b     (both branches a single assignment to the same name)"""
    def visit_If(self, node):
        self.generic_visit(node)
        if len(node.body) == 1 and len(node.orelse) == 1 and all(
                isinstance(b, ast.Assign) and len(b.targets) == 1 and isinstance(b.targets[0], ast.Name)
                for b in (node.body[0], node.orelse[0])) and node.body[0].targets[0].id == node.orelse[0].targets[0].id:
            return ast.Assign(targets=[ast.Name(id=node.body[0].targets[0].id, ctx=ast.Store())],
                              value=ast.IfExp(test=node.test, body=node.body[0].value, orelse=node.orelse[0].value),
                              type_comment=None)
        return node


class Commute(ast.NodeTransformer):
    """a * b -> b * a  (no string / list / tuple literal operand);   x + 1 -> 1 + x  (numeric literal operand)"""
    def visit_BinOp(self, node):
        self.generic_visit(node)
        lit = (ast.List, ast.Tuple, ast.JoinedStr, ast.ListComp, ast.Dict, ast.Set)

        def strlike(x):
            return isinstance(x, lit) or (isinstance(x, ast.Constant) and isinstance(x.value, (str, bytes)))

        def num(x):
            return isinstance(x, ast.Constant) and isinstance(x.value, (int, float)) and not isinstance(x.value, bool)
        if isinstance(node.op, ast.Mult) and not strlike(node.left) and not strlike(node.right):
            return ast.BinOp(left=node.right, op=ast.Mult(), right=node.left)
        if isinstance(node.op, ast.Add) and (num(node.left) != num(node.right)):
            return ast.BinOp(left=node.right, op=ast.Add(), right=node.left)
        return node


class FString(ast.NodeTransformer):
    """'text {0} {1}'.format(a, b)  ->  f'text {a} {b}'   (plain positional fields only)"""
    def visit_Call(self, node):
        self.generic_visit(node)
        f = node.func
        if isinstance(f, ast.Attribute) and f.attr == 'format' and isinstance(f.value, ast.Constant) \
                and isinstance(f.value.value, str) and not node.keywords \
                and not any(isinstance(a, ast.Starred) for a in node.args):
            import string
            try:
                parts = list(string.Formatter().parse(f.value.value))
            except ValueError:
                return node
            vals = []
            auto = 0
            for text, field, spec, conv in parts:
                if text:
                    vals.append(ast.Constant(value=text))
                if field is None:
                    continue
                if spec or conv:
                    return node
                if field == '':
                    idx = auto
                    auto += 1
                elif field.isdigit():
                    idx = int(field)
                else:
                    return node
                if idx >= len(node.args):
                    return node
                vals.append(ast.FormattedValue(value=node.args[idx], conversion=-1, format_spec=None))
            return ast.JoinedStr(values=vals)
        return node


TRANSFORMERS = {'commute': Commute, 'fstring': FString, 'tempvar': TempVar, 'comp2loop': Comp2Loop, 'ternary': Ternary, 'unelse': UnElse, 'npfunc': NpFunc, 'demorgan': DeMorgan, 'unparse': None, 'swapif': SwapIf, 'flipcmp': FlipCmp, 'augexpand': AugExpand, 'notnot': NotNot}


def overrides(kind, repo=None, sources=None):
    """{relative path: new source} for one kind of rewrite of the current tree (`sources`: {relative path: text} that
    replaces the file content first - a seeded change on which the rewrite is applied)"""
    repo = repo or REPO
    sources = sources or {}
    out = {k: v for k, v in sources.items() if k not in FILES}
    if kind == 'rename':
        from . import alpharename
        alpharename.REPO = repo
        for f in FILES:
            src, new, n = alpharename.rename_file(f, 'alpha', sources.get(f))
            if new != src or f in sources:
                out[f] = new
        return out
    for f in FILES:
        if f in sources:
            src = sources[f]
        else:
            with open(os.path.join(repo, f)) as fh:
                src = fh.read()
        tree = ast.parse(src)
        tr = TRANSFORMERS[kind]
        if tr is not None:
            tree = tr().visit(tree)
        ast.fix_missing_locations(tree)
        new = ast.unparse(tree) + '\n'
        compile(new, f, 'exec')
        out[f] = new
    return out


def main():
    if sys.argv[1] == 'list':
        print(' '.join(KINDS))
        return
    kind, d = sys.argv[2], sys.argv[3]
    for f, new in overrides(kind).items():
        with open(os.path.join(d, f), 'w') as fh:
            fh.write(new)
    print('wrote', kind, 'to', d)


if __name__ == '__main__':
    main()
