"""Obligations, verdicts, known-findings matching, evidence and replay files."""
import json
import os
import re
import time

VERIF = os.path.dirname(os.path.dirname(os.path.abspath(__file__)))
EVIDENCE_DIR = os.environ.get('EMD_VERIF_EVIDENCE') or os.path.join(VERIF, 'evidence')   # env only for experiments
KNOWN_FILE = os.path.join(VERIF, 'known_findings.json')

PASS, VIOLATION, UNDECIDED, NOTE = 'PASS', 'VIOLATION', 'UNDECIDED', 'NOTE'


class Ob:
    """One obligation (rule x construct) and its verdict."""

    def __init__(self, rule, verdict, function, construct, what='', file='', line=0,
                 expected=None, found=None, path=None, fixture=None):
        self.rule = rule
        self.verdict = verdict
        self.function = function          # qualname
        self.construct = construct        # stable role string (never a line number)
        self.what = what
        self.file = file
        self.line = line
        self.expected = expected
        self.found = found
        self.path = path or []
        self.fixture = fixture            # name of the fixture this obligation was evaluated on

    def key(self):
        return '%s|%s|%s' % (self.rule, self.function, self.construct)

    def slug(self):
        s = '%s-%s-%s' % (self.rule, self.function.split('.')[-1], self.construct)
        return re.sub(r'[^A-Za-z0-9_.-]+', '_', s)[:120]

    def as_dict(self):
        d = {'rule': self.rule, 'verdict': self.verdict, 'function': self.function,
             'construct': self.construct, 'site': '%s:%s' % (self.file, self.line)}
        if self.what:
            d['what'] = self.what
        if self.expected is not None:
            d['expected'] = self.expected
        if self.found is not None:
            d['found'] = self.found
        if self.path:
            d['path'] = self.path
        if self.fixture:
            d['fixture'] = self.fixture
        return d


class Ctx:
    """Per-run context handed to the rule modules."""

    def __init__(self, program, prop, tier, seed=0):
        self.P = program
        self.prop = prop
        self.tier = tier
        self.seed = seed
        self.obs = []
        self.cover = {}            # free-form coverage counters for the evidence
        self.contexts = []         # literal-mode contexts enumerated
        self.assumptions = []
        self.trusted = []
        self.notes = []
        self.paths = 0
        self.call_sites = 0
        self.functions = set()

    def ob(self, rule, verdict, fi_or_name, construct, what='', node=None, **kw):
        if hasattr(fi_or_name, 'qualname'):
            fn = fi_or_name.qualname
            file = fi_or_name.module.relpath
            line = getattr(node, 'lineno', None) or fi_or_name.node.lineno
            self.functions.add(fn)
        else:
            fn = fi_or_name
            file = kw.pop('file', '')
            line = getattr(node, 'lineno', 0) or kw.pop('line', 0)
        o = Ob(rule, verdict, fn, construct, what=what, file=file, line=line, **kw)
        self.obs.append(o)
        return o

    def passed(self, rule, fi, construct, what='', node=None, **kw):
        return self.ob(rule, PASS, fi, construct, what, node, **kw)

    def violation(self, rule, fi, construct, what='', node=None, **kw):
        return self.ob(rule, VIOLATION, fi, construct, what, node, **kw)

    def undecided(self, rule, fi, construct, what='', node=None, **kw):
        return self.ob(rule, UNDECIDED, fi, construct, what, node, **kw)

    def note(self, rule, fi, construct, what='', node=None, **kw):
        return self.ob(rule, NOTE, fi, construct, what, node, **kw)

    def rule(self, fn, rid, *args, **kw):
        """Run one rule; a rule that cannot be evaluated (vanished anchor, unsupported construct) becomes an UNDECIDED
        obligation of that rule instead of aborting the check, so the remaining rules still report what they see."""
        from .model import AnalysisError
        try:
            return fn(self, rid, *args, **kw)
        except AnalysisError as e:
            node = getattr(e, 'node', None)
            self.ob(rid, UNDECIDED, '%s.%s' % (fn.__module__.split('.')[-1], fn.__name__), 'rule could be evaluated',
                    str(e)[:300], file='', line=getattr(node, 'lineno', 0) or 0)
            return None

    def count(self, key, n=1):
        self.cover[key] = self.cover.get(key, 0) + n

    def assume(self, text):
        if text not in self.assumptions:
            self.assumptions.append(text)

    def trust(self, text):
        if text not in self.trusted:
            self.trusted.append(text)


def load_known():
    if not os.path.exists(KNOWN_FILE):
        return []
    with open(KNOWN_FILE) as f:
        return json.load(f)


def match_known(prop, ob, known):
    for k in known:
        if k.get('status') != 'known':
            continue
        if k.get('property') != prop:
            continue
        if k.get('rule') == ob.rule and k.get('function') == ob.function and k.get('construct') == ob.construct:
            return k
    return None


def finish(ctx, floors, explanation, rule_text, level_text, t0, fixtures=None, extra=None, quiet=False):
    """Print verdict lines, write evidence + replay files, return the exit code."""
    prop = ctx.prop
    known = load_known()
    real = [o for o in ctx.obs if not o.fixture]
    viol, knowns, undec = [], [], []
    for o in real:
        if o.verdict == VIOLATION:
            k = match_known(prop, o, known)
            if k is not None:
                knowns.append((o, k))
            else:
                viol.append(o)
        elif o.verdict == UNDECIDED:
            undec.append(o)
    # anti-vacuity floors
    counts = {}
    for o in real:
        if o.verdict != NOTE:
            counts[o.rule] = counts.get(o.rule, 0) + 1
    floor_errors = []
    for rule, n in (floors or {}).items():
        if counts.get(rule, 0) < n:
            floor_errors.append('rule %s matched %d instances, hand-confirmed floor is %d'
                                % (rule, counts.get(rule, 0), n))
    fixture_errors = []
    for fx in (fixtures or []):
        if not fx['ok']:
            fixture_errors.append('fixture %s: %s' % (fx['name'], fx['why']))

    replay_dir = os.path.join(EVIDENCE_DIR, 'replay', prop)
    lines = []
    for o, k in knowns:
        lines.append('KNOWN-FINDING: property=%s %s %s: %s' % (prop, o.rule, o.function, k.get('what') or o.what))
    for o in viol:
        os.makedirs(replay_dir, exist_ok=True)
        rp = os.path.join(replay_dir, o.slug() + '.json')
        with open(rp, 'w') as f:
            d = o.as_dict()
            d['property'] = prop
            json.dump(d, f, indent=1)
        lines.append('VIOLATION property=%s replay=%s' % (prop, rp))
        lines.append('  %s:%s %s %s [%s] %s' % (o.file, o.line, o.function, o.rule, o.construct, o.what))
        if o.expected is not None or o.found is not None:
            lines.append('    expected: %s' % (o.expected,))
            lines.append('    found:    %s' % (o.found,))
        for p in o.path[:12]:
            lines.append('    path: %s' % p)
    for o in undec:
        lines.append('ANALYSIS-ERROR property=%s rule=%s %s:%s %s [%s] %s'
                     % (prop, o.rule, o.file, o.line, o.function, o.construct, o.what))
    for e in floor_errors + fixture_errors:
        lines.append('ANALYSIS-ERROR property=%s %s' % (prop, e))
    notes = [o for o in real if o.verdict == NOTE]
    if not quiet:
        for o in notes:
            lines.append('NOTE property=%s %s %s:%s %s [%s] %s'
                         % (prop, o.rule, o.file, o.line, o.function, o.construct, o.what))

    npass = sum(1 for o in real if o.verdict == PASS)
    nobl = sum(1 for o in real if o.verdict in (PASS, VIOLATION, UNDECIDED))
    distinct = len({o.key() for o in real if o.verdict in (PASS, VIOLATION, UNDECIDED)})
    samples = [o.as_dict() for o in real if o.verdict in (VIOLATION, UNDECIDED)][:10]
    seen_rules = set()
    for o in real:
        if o.verdict == PASS and o.rule not in seen_rules:
            seen_rules.add(o.rule)
            samples.append(o.as_dict())
    for o in real:
        if len(samples) >= 40:
            break
        if o.verdict == PASS and o.as_dict() not in samples:
            samples.append(o.as_dict())
    per_rule = {}
    for o in real:
        r = per_rule.setdefault(o.rule, {'PASS': 0, 'VIOLATION': 0, 'UNDECIDED': 0, 'NOTE': 0})
        r[o.verdict] += 1
    coverage = {
        'explanation': explanation,
        'obligations': nobl,
        'discharged': npass + len(knowns),
        'evaluations': len(ctx.obs),
        'distinct_nontrivial': distinct,
        'rule': rule_text,
        'samples': samples,
        'per_rule': per_rule,
        'checker_cmd': './check %s --tier %s' % (prop, ctx.tier),
        'trusted_base': ctx.trusted,
        'modules': ctx.P.inventory(),
        'functions_analysed': sorted(ctx.functions),
        'paths_explored': ctx.paths,
        'call_sites_resolved': ctx.call_sites,
        'contexts': ctx.contexts[:200],
        'known_findings_matched': [{'rule': o.rule, 'function': o.function, 'construct': o.construct}
                                   for o, k in knowns],
        'notes': [o.as_dict() for o in notes][:40],
        'fixtures': fixtures or [],
        'counters': ctx.cover,
        'exhaustive': False,
    }
    if extra:
        coverage.update(extra)
    ev = {
        'property_id': prop,
        'tier': ctx.tier,
        'seed': int(ctx.seed),
        'level': 'other',
        'coverage': coverage,
        'assumptions': ctx.assumptions,
        'wall_s': round(time.time() - t0, 3),
        'violations': len(viol),
    }
    os.makedirs(EVIDENCE_DIR, exist_ok=True)
    with open(os.path.join(EVIDENCE_DIR, prop + '.json'), 'w') as f:
        json.dump(ev, f, indent=1, sort_keys=False, default=str)
        f.write('\n')
    if viol:
        code = 1
    elif undec or floor_errors or fixture_errors:
        code = 2
    else:
        code = 0
    lines.append('%s %s tier=%s obligations=%d pass=%d known=%d violations=%d undecided=%d notes=%d wall=%.2fs'
                 % ({0: 'OK', 1: 'FAIL', 2: 'ANALYSIS-ERROR'}[code], prop, ctx.tier, nobl, npass, len(knowns),
                    len(viol), len(undec) + len(floor_errors) + len(fixture_errors), len(notes),
                    time.time() - t0))
    print('\n'.join(lines))
    return code
