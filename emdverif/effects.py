"""D5 - alias / freshness / mutation analysis (flow-sensitive, interprocedural summaries).

Abstract value of a variable: a set of *roots*.  A root is (origin, depth): the
value is (part of) the object passed in as parameter `origin` (or the attribute
chain 'self.store'), depth 0 = the object itself or a view of it, depth 1 =
something stored inside it (an element of a dict/list).  A fresh container whose
elements still belong to an argument (shallow copy, list literal) is the root
('cont', origin, depth).  Writing through a root of depth d mutates the
argument; writing into a 'cont' does not, but handing it to a callee that
mutates nested elements does.
"""
import ast

from .model import walk_local, unparse

MUTATORS = {'append', 'extend', 'pop', 'sort', 'update', 'clear', 'setdefault', 'fill', 'insert', 'remove',
            'reverse', 'put', 'resize', 'popitem', 'itemset', 'partition'}
FRESH_METHODS = {'astype', 'flatten', 'tolist', 'sum', 'mean', 'std', 'max', 'min', 'dot', 'cumsum', 'round',
                 'argmax', 'argmin', 'nonzero', 'any', 'all', 'format', 'split', 'join', 'lstrip', 'strip',
                 'keys', 'values', 'items', 'get_name', 'toarray', 'conj', 'var', 'prod', 'repeat', 'take',
                 'clip', 'argsort', 'tobytes', 'item', 'index', 'count', 'replace'}
VIEW_METHODS = {'reshape', 'ravel', 'squeeze', 'view', 'transpose', 'swapaxes', 'get'}
VIEW_FUNCS = {'numpy.asarray', 'numpy.asanyarray', 'numpy.squeeze', 'numpy.reshape', 'numpy.ravel',
              'numpy.atleast_2d', 'numpy.atleast_1d', 'numpy.broadcast_to', 'numpy.transpose',
              'numpy.ascontiguousarray', 'numpy.flipud', 'numpy.fliplr'}
DEEP_FUNCS = {'copy.deepcopy'}
SHALLOW_FUNCS = {'builtins.dict', 'builtins.list', 'copy.copy', 'builtins.tuple'}
ARRAY_ATTRS = {'ndim', 'shape', 'size', 'dtype', 'T', 'real', 'imag'}
DICT_METHODS = {'items', 'keys', 'values', 'get', 'update', 'setdefault', 'popitem'}


class Mutation:
    def __init__(self, origin, node, what, chain=None):
        self.origin = origin
        self.node = node
        self.what = what
        self.chain = chain or []


class FuncSummary:
    def __init__(self):
        self.mutations = []         # Mutation list (origin = formal name or 'self.attr')
        self.returns = set()        # roots flowing to the return value
        self.mutates_depth = {}     # formal -> set of depths {0, 1}


class MutationAnalysis:
    def __init__(self, program):
        self.P = program
        self.summaries = {}
        self._in_progress = set()
        self._kinds = {}

    # -------------------------------------------------------------------- kinds
    def param_kind(self, fi, name):
        key = (fi.qualname, name)
        if key in self._kinds:
            return self._kinds[key]
        kind = 'unknown'
        for n in walk_local(fi.node):
            if isinstance(n, ast.Attribute) and isinstance(n.value, ast.Name) and n.value.id == name:
                if n.attr in ARRAY_ATTRS or n.attr in ('std', 'astype', 'flatten', 'reshape'):
                    kind = 'array'
                    break
                if n.attr in DICT_METHODS:
                    kind = 'dict'
                    break
            elif isinstance(n, ast.keyword) and n.arg is None and isinstance(n.value, ast.Name) \
                    and n.value.id == name:
                kind = 'dict'
                break
            elif isinstance(n, ast.Call) and kind == 'unknown' and any(isinstance(a, ast.Name) and a.id == name
                                                                       for a in n.args):
                d = self.P.resolve(fi.module, n.func, fi) or ''
                if d.startswith('numpy.') or d.startswith('scipy.'):
                    kind = 'array'          # handed to a numpy / scipy routine as data
            elif isinstance(n, ast.Subscript) and isinstance(n.value, ast.Name) and n.value.id == name:
                if isinstance(n.slice, ast.Constant) and isinstance(n.slice.value, str):
                    kind = 'dict'
                    break
                if isinstance(n.slice, (ast.Tuple, ast.Slice)):
                    kind = 'array'
                    break
            elif isinstance(n, ast.BinOp) and ((isinstance(n.left, ast.Name) and n.left.id == name)
                                               or (isinstance(n.right, ast.Name) and n.right.id == name)):
                if kind == 'unknown':
                    kind = 'array'
            elif isinstance(n, ast.Compare) and any(isinstance(o, (ast.In, ast.NotIn)) for o in n.ops) \
                    and any(isinstance(c, ast.Name) and c.id == name for c in n.comparators) \
                    and isinstance(n.left, ast.Constant) and isinstance(n.left.value, str):
                kind = 'dict'
                break
        self._kinds[key] = kind
        return kind

    # ---------------------------------------------------------------- summaries
    def summary(self, fi):
        q = fi.qualname
        if q in self.summaries:
            return self.summaries[q]
        if q in self._in_progress:
            return self.summaries.get(('partial', q), FuncSummary())
        self._in_progress.add(q)
        prev = None
        for _ in range(4):                      # fixpoint for (mutual) recursion
            s = self._analyse(fi)
            self.summaries[('partial', q)] = s
            sig = (sorted((f, tuple(sorted(d))) for f, d in s.mutates_depth.items()), sorted(s.returns))
            if sig == prev:
                break
            prev = sig
        self._in_progress.discard(q)
        self.summaries[q] = s
        return s

    def _analyse(self, fi):
        s = FuncSummary()
        env = {}
        for p in fi.all_formals():
            env[p] = {(p, 0)}
        if fi.vararg:
            env[fi.vararg] = {('cont', fi.vararg, 0)}
        if fi.kwarg:
            env[fi.kwarg] = {('cont', fi.kwarg, 0)}
        self._block(fi.node.body, env, fi, s)
        for m in s.mutations:
            pass
        return s

    # ------------------------------------------------------------------ engine
    def _block(self, stmts, env, fi, s):
        for st in stmts:
            if '#dead' in env:
                break
            self._stmt(st, env, fi, s)

    def _join(self, a, b):
        # a branch that returned / raised contributes nothing to the state after the statement
        if '#dead' in a and '#dead' not in b:
            return dict(b)
        if '#dead' in b and '#dead' not in a:
            return dict(a)
        out = dict(a)
        for k, v in b.items():
            out[k] = set(out.get(k, set())) | set(v)
        return out

    def _stmt(self, st, env, fi, s):
        if isinstance(st, ast.Assign):
            # a, b = x, y binds element-wise (a never refers to y)
            if isinstance(st.value, (ast.Tuple, ast.List)) and all(
                    isinstance(t, (ast.Tuple, ast.List)) and len(t.elts) == len(st.value.elts)
                    and not any(isinstance(e, ast.Starred) for e in list(t.elts) + list(st.value.elts)) for t in st.targets):
                vals = [self._ev(e, env, fi, s) for e in st.value.elts]
                for t in st.targets:
                    for te, v in zip(t.elts, vals):
                        self._assign(te, v, env, fi, s, st)
                return
            v = self._ev(st.value, env, fi, s)
            for t in st.targets:
                self._assign(t, v, env, fi, s, st)
        elif isinstance(st, ast.AnnAssign) and st.value is not None:
            self._assign(st.target, self._ev(st.value, env, fi, s), env, fi, s, st)
        elif isinstance(st, ast.AugAssign):
            v = self._ev(st.value, env, fi, s)
            t = st.target
            if isinstance(t, ast.Name):
                roots = env.get(t.id, set())
                for r in roots:
                    if r[0] != 'cont' and self._array_like(fi, r[0], t.id):
                        self._mutate(s, r, st, 'in-place `%s` on an array that is the caller\'s %s'
                                     % (unparse(st)[:50], r[0]))
            else:
                self._store_target(t, env, fi, s, st)
        elif isinstance(st, ast.Expr):
            self._ev(st.value, env, fi, s)
        elif isinstance(st, ast.Return):
            if st.value is not None:
                v = self._ev(st.value, env, fi, s)
                s.returns |= {r for r in v}
            env['#dead'] = set()
        elif isinstance(st, ast.If):
            self._ev(st.test, env, fi, s)
            e1 = {k: set(v) for k, v in env.items()}
            e2 = {k: set(v) for k, v in env.items()}
            self._block(st.body, e1, fi, s)
            self._block(st.orelse, e2, fi, s)
            j = self._join(e1, e2)
            env.clear()
            env.update(j)
        elif isinstance(st, (ast.While, ast.For)):
            if isinstance(st, ast.For):
                it = self._ev(st.iter, env, fi, s)
                elem = self._elements(it)
                self._assign(st.target, elem, env, fi, s, st)
            else:
                self._ev(st.test, env, fi, s)
            for _ in range(2):
                e1 = {k: set(v) for k, v in env.items()}
                self._block(st.body, e1, fi, s)
                e1.pop('#dead', None)
                j = self._join(env, e1)
                env.clear()
                env.update(j)
            self._block(st.orelse, env, fi, s)
        elif isinstance(st, ast.With):
            for item in st.items:
                v = self._ev(item.context_expr, env, fi, s)
                if item.optional_vars is not None:
                    self._assign(item.optional_vars, set(), env, fi, s, st)
            self._block(st.body, env, fi, s)
        elif isinstance(st, ast.Try):
            self._block(st.body, env, fi, s)
            for h in st.handlers:
                self._block(h.body, env, fi, s)
            self._block(st.orelse, env, fi, s)
            self._block(st.finalbody, env, fi, s)
        elif isinstance(st, ast.Delete):
            for t in st.targets:
                if isinstance(t, ast.Subscript):
                    self._store_target(t, env, fi, s, st, verb='del')
        elif isinstance(st, ast.Raise):
            if st.exc is not None:
                self._ev(st.exc, env, fi, s)
            env['#dead'] = set()
        elif isinstance(st, (ast.Continue, ast.Break)):
            env['#dead'] = set()

    def _array_like(self, fi, origin, local):
        if origin.startswith('self.'):
            return False
        return self.param_kind(fi, origin) == 'array' or self.param_kind(fi, local) == 'array'

    def _mutate(self, s, root, node, what, chain=None):
        origin, depth = (root[1], root[2]) if root[0] == 'cont' else (root[0], root[1])
        s.mutations.append(Mutation(origin, node, what, chain))
        s.mutates_depth.setdefault(origin, set()).add(min(depth, 1))

    def _store_target(self, t, env, fi, s, node, verb='store'):
        """a[i] = v / a.attr = v / del a[i] : mutates whatever `a` is rooted in."""
        if isinstance(t, ast.Subscript):
            base = self._ev(t.value, env, fi, s)
            self._ev(t.slice, env, fi, s)
            for r in base:
                if r[0] == 'cont':
                    continue
                self._mutate(s, r, node, '%s into `%s` which is the caller\'s %s%s'
                             % (verb, unparse(t)[:50], r[0], '' if r[1] == 0 else ' (nested element)'))
        elif isinstance(t, ast.Attribute):
            base = self._ev(t.value, env, fi, s)
            # attribute stores on passed objects are reported separately (NOTE level) by the rule
            for r in base:
                if r[0] != 'cont' and r[0] != 'self':
                    s.mutations.append(Mutation(r[0], node, 'attribute store `%s`' % unparse(t)[:40], ['attr']))
        elif isinstance(t, (ast.Tuple, ast.List)):
            for e in t.elts:
                self._store_target(e, env, fi, s, node, verb)

    def _assign(self, t, v, env, fi, s, node):
        if isinstance(t, ast.Name):
            env[t.id] = set(v)
        elif isinstance(t, (ast.Tuple, ast.List)):
            elem = self._elements(v)
            for e in t.elts:
                self._assign(e.value if isinstance(e, ast.Starred) else e, elem, env, fi, s, node)
        elif isinstance(t, ast.Subscript):
            self._store_target(t, env, fi, s, node)
            # the container now (also) holds v
            if isinstance(t.value, ast.Name):
                cur = env.get(t.value.id, set())
                env[t.value.id] = set(cur) | {self._as_cont(r) for r in v}
        elif isinstance(t, ast.Attribute):
            key = _key(t)
            self._store_target(t, env, fi, s, node)
            if key:
                env[key] = set(v)

    @staticmethod
    def _as_cont(r):
        if r[0] == 'cont':
            return r
        return ('cont', r[0], r[1])

    def _elements(self, roots):
        """Roots of the elements of a value."""
        out = set()
        for r in roots:
            if r[0] == 'cont':
                out.add((r[1], r[2]))
            else:
                out.add((r[0], min(r[1] + 1, 1)))
        return out

    def _shallow(self, roots):
        """Fresh container whose elements still belong to the roots."""
        out = set()
        for r in roots:
            if r[0] == 'cont':
                out.add(r)
            else:
                out.add(('cont', r[0], min(r[1] + 1, 1)))
        return out

    # ------------------------------------------------------------- expressions
    def _ev(self, e, env, fi, s):
        if e is None or isinstance(e, ast.Constant):
            return set()
        if isinstance(e, ast.Name):
            return set(env.get(e.id, set()))
        if isinstance(e, ast.Attribute):
            key = _key(e)
            if key and key in env:
                return set(env[key])
            if key and key.startswith('self.') and key.count('.') == 1 and fi.is_method:
                return {(key, 0)}
            base = self._ev(e.value, env, fi, s)
            if e.attr in ('T', 'real', 'imag', 'flat'):
                return base
            if e.attr in ARRAY_ATTRS:
                return set()
            return self._elements(base) if base else set()
        if isinstance(e, ast.Subscript):
            base = self._ev(e.value, env, fi, s)
            self._ev(e.slice, env, fi, s)
            # fancy/boolean indexing copies; basic slicing views - without types we keep the alias (sound)
            if _is_fancy(e.slice):
                return set()
            out = set()
            for r in base:
                if r[0] == 'cont':
                    out.add((r[1], r[2]))
                else:
                    kind = self.param_kind(fi, r[0]) if not r[0].startswith('self.') else 'dict'
                    if kind == 'array':
                        out.add((r[0], r[1]))          # a view of the same array
                    else:
                        out.add((r[0], min(r[1] + 1, 1)))
            return out
        if isinstance(e, (ast.List, ast.Tuple, ast.Set)):
            out = set()
            for x in e.elts:
                for r in self._ev(x.value if isinstance(x, ast.Starred) else x, env, fi, s):
                    out.add(self._as_cont(r))
            return out
        if isinstance(e, ast.Dict):
            out = set()
            for x in e.values:
                for r in self._ev(x, env, fi, s):
                    out.add(self._as_cont(r))
            for k in e.keys:
                if k is None:
                    pass
            return out
        if isinstance(e, (ast.BinOp,)):
            self._ev(e.left, env, fi, s)
            self._ev(e.right, env, fi, s)
            return set()
        if isinstance(e, (ast.UnaryOp,)):
            self._ev(e.operand, env, fi, s)
            return set()
        if isinstance(e, ast.BoolOp):
            out = set()
            for v in e.values:
                out |= self._ev(v, env, fi, s)
            return out
        if isinstance(e, ast.Compare):
            self._ev(e.left, env, fi, s)
            for c in e.comparators:
                self._ev(c, env, fi, s)
            return set()
        if isinstance(e, ast.IfExp):
            self._ev(e.test, env, fi, s)
            return self._ev(e.body, env, fi, s) | self._ev(e.orelse, env, fi, s)
        if isinstance(e, (ast.ListComp, ast.GeneratorExp, ast.SetComp, ast.DictComp)):
            env2 = {k: set(v) for k, v in env.items()}
            for g in e.generators:
                it = self._ev(g.iter, env2, fi, s)
                self._assign(g.target, self._elements(it), env2, fi, s, e)
                for c in g.ifs:
                    self._ev(c, env2, fi, s)
            if isinstance(e, ast.DictComp):
                v = self._ev(e.value, env2, fi, s)
            else:
                v = self._ev(e.elt, env2, fi, s)
            return {self._as_cont(r) for r in v}
        if isinstance(e, ast.Call):
            return self._call(e, env, fi, s)
        if isinstance(e, ast.Starred):
            return self._ev(e.value, env, fi, s)
        if isinstance(e, ast.Slice):
            for x in (e.lower, e.upper, e.step):
                if x is not None:
                    self._ev(x, env, fi, s)
            return set()
        if isinstance(e, (ast.JoinedStr, ast.Lambda, ast.FormattedValue)):
            return set()
        return set()

    def _call(self, e, env, fi, s):
        P = self.P
        argv = [self._ev(a, env, fi, s) for a in e.args]
        kwv = [(k.arg, self._ev(k.value, env, fi, s)) for k in e.keywords]
        # method on a value
        if isinstance(e.func, ast.Attribute):
            d = P.resolve(fi.module, e.func, fi)
            ca = P.resolve_callee(fi.module, fi, e.func)
            if ca.kind not in ('repo', 'class') and (d is None or not d.startswith(('numpy.', 'scipy.', 'yaml.',
                                                                                    'logging.', 'functools.',
                                                                                    'copy.', 'builtins.'))):
                base = self._ev(e.func.value, env, fi, s)
                m = e.func.attr
                if m in MUTATORS:
                    for r in base:
                        if r[0] != 'cont':
                            self._mutate(s, r, e, 'in-place `.%s()` on `%s` which is the caller\'s %s'
                                         % (m, unparse(e.func.value)[:40], r[0]))
                    if m in ('pop', 'setdefault', 'popitem'):
                        return self._elements(base)
                    return set()
                if m == 'copy':
                    out = set()
                    for r in base:
                        if r[0] == 'cont':
                            out.add(r)
                            continue
                        kind = self.param_kind(fi, r[0]) if not r[0].startswith('self.') else 'dict'
                        if kind == 'array':
                            continue                      # ndarray.copy() is deep
                        out.add(('cont', r[0], min(r[1] + 1, 1)))
                    return out
                if m in VIEW_METHODS:
                    return base
                if m in FRESH_METHODS:
                    return set()
                return set()
        ca = P.resolve_callee(fi.module, fi, e.func)
        d = ca.dotted
        if ca.kind == 'lib':
            if d in DEEP_FUNCS:
                return set()
            if d in SHALLOW_FUNCS and argv:
                return self._shallow(argv[0])
            if d in VIEW_FUNCS and argv:
                return argv[0]
            # out= keyword of numpy ufuncs
            for k, v in kwv:
                if k == 'out':
                    for r in v:
                        if r[0] != 'cont':
                            self._mutate(s, r, e, '`out=` argument is the caller\'s %s' % r[0])
            if d == 'functools.partial':
                return set()
            return set()
        if ca.kind in ('repo', 'class') and ca.func is not None:
            g = ca.func
            gs = self.summary(g)
            b = P.bind(e.args, e.keywords, ca)
            # map callee formals -> roots of the actuals
            actual = {}
            for formal, node in b.args.items():
                actual[formal] = self._ev(node, env, fi, s)
            for sk in b.star_kwargs:
                # **d : the callee's matching formals receive elements of d
                elems = self._elements(self._ev(sk, env, fi, s))
                for formal in g.all_formals():
                    if formal not in actual:
                        actual[formal] = set(elems)
            for formal, depths in gs.mutates_depth.items():
                for r in actual.get(formal, set()):
                    for dpt in depths:
                        if r[0] == 'cont':
                            if dpt >= 1:
                                self._mutate(s, (r[1], r[2]), e,
                                             '`%s` is a shallow copy of the caller\'s %s and %s modifies its nested '
                                             'elements in place' % (unparse(e.args[0])[:30] if e.args else formal,
                                                                    r[1], g.name),
                                             chain=[g.qualname])
                        else:
                            self._mutate(s, r, e, '%s modifies its argument `%s`, which is the caller\'s %s'
                                         % (g.name, formal, r[0]), chain=[g.qualname])
            out = set()
            for r in gs.returns:
                if r[0] == 'cont':
                    for a in actual.get(r[1], set()):
                        if a[0] == 'cont':
                            out.add(a)
                        else:
                            out.add(('cont', a[0], min(a[1] + r[2], 1)))
                else:
                    for a in actual.get(r[0], set()):
                        if a[0] == 'cont':
                            if r[1] >= 1:
                                out.add((a[1], a[2]))
                            else:
                                out.add(a)
                        else:
                            out.add((a[0], min(a[1] + r[1], 1)))
            return out
        return set()

    # ---------------------------------------------------------------- queries
    def mutated_params(self, fi):
        """{formal: [Mutation]} excluding attribute stores on passed objects."""
        s = self.summary(fi)
        out = {}
        for m in s.mutations:
            if m.chain == ['attr']:
                continue
            if m.origin in fi.all_formals() and m.origin not in ('self', 'cls'):
                out.setdefault(m.origin, []).append(m)
        return out

    def attr_stores(self, fi):
        s = self.summary(fi)
        return [m for m in s.mutations if m.chain == ['attr'] and m.origin in fi.all_formals()
                and m.origin not in ('self', 'cls')]

    def mutates_attr_of_self(self, fi, attr):
        s = self.summary(fi)
        for m in s.mutations:
            if m.origin == 'self.' + attr and m.chain != ['attr']:
                return (m.what, m.node, m.chain)
        return None


def _key(n):
    if isinstance(n, ast.Name):
        return n.id
    if isinstance(n, ast.Attribute):
        b = _key(n.value)
        return (b + '.' + n.attr) if b else None
    return None


def _is_fancy(sl):
    """Index expressions that certainly copy: comparisons / boolean arrays / lists."""
    if isinstance(sl, (ast.Compare, ast.List)):
        return True
    if isinstance(sl, ast.Tuple):
        return any(isinstance(x, (ast.Compare, ast.List)) for x in sl.elts)
    return False
