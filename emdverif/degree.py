"""D2 - homogeneity degrees (dimensional typing under X -> s*X, s > 0).

deg(term) is the exponent d such that the value scales like s**d:
  int / Fraction d     homogeneous of degree d
  ANY                  literal zero / freshly allocated zeros: compatible with every degree
  HOM                  homogeneous, degree unknown (join of unequal degrees) - fine under np.angle, sign tests,
                       ratios of itself
  ('log', r)           value shifts additively by r*log10(s)   (c * log10 of a degree-d quantity: r = c*d)
  TOP                  not homogeneous / not known
Comparisons, additions and branch conditions must combine equal degrees; every offence is recorded as an Issue.
Repo-internal calls are summarised by evaluating the callee (all paths, literal arguments as context) under the
degrees of the actuals.
"""
from fractions import Fraction

from .paths import Evaluator, is_c, show, subterms, C, S

ANY, HOM, TOP = 'any', 'hom', 'top'


class Issue:
    def __init__(self, kind, term, function, detail):
        self.kind = kind
        self.term = term
        self.function = function
        self.detail = detail

    def key(self):
        return '%s: %s' % (self.kind, show(self.term)[:70])


def is_num(d):
    return isinstance(d, (int, Fraction)) and not isinstance(d, bool)


def join(a, b):
    if a == b:
        return a
    if a == ANY:
        return b
    if b == ANY:
        return a
    if TOP in (a, b):
        return TOP
    if isinstance(a, tuple) or isinstance(b, tuple):
        if isinstance(a, tuple) and isinstance(b, tuple) and a[0] == 'tup' and b[0] == 'tup' and len(a[1]) == len(b[1]):
            return ('tup', tuple(join(x, y) for x, y in zip(a[1], b[1])))
        return TOP
    if is_num(a) and is_num(b):
        return HOM
    return HOM if {a, b} <= {HOM} or (HOM in (a, b) and (is_num(a) or is_num(b))) else TOP


SAME = {'numpy.concatenate', 'numpy.hstack', 'numpy.vstack', 'numpy.abs', 'numpy.absolute', 'numpy.sum', 'numpy.nansum', 'numpy.mean', 'numpy.median', 'numpy.max',
        'numpy.min', 'numpy.amax', 'numpy.amin', 'numpy.array', 'numpy.asarray', 'numpy.squeeze', 'numpy.diff',
        'numpy.cumsum', 'numpy.sort', 'numpy.flipud', 'numpy.copy', 'numpy.std', 'numpy.real', 'numpy.imag',
        'numpy.gradient', 'scipy.signal.hilbert', 'scipy.signal.medfilt', 'numpy.atleast_2d', 'numpy.repeat',
        'numpy.tile', 'numpy.broadcast_to', 'numpy.percentile', 'numpy.average', 'numpy.clip', 'numpy.negative',
        'numpy.nanmean', 'numpy.flip', 'numpy.ravel', 'numpy.transpose', 'builtins.max', 'builtins.min',
        'builtins.sum', 'builtins.abs', 'builtins.float', 'numpy.zeros_like', 'numpy.ones_like',
        'emd.support.ensure_1d_with_singleton', 'emd.support.ensure_2d', 'emd.support.ensure_vector'}
ZERO = {'numpy.sign', 'numpy.angle', 'scipy.signal.argrelextrema', 'numpy.where', 'numpy.nonzero', 'numpy.arange',
        'builtins.len', 'builtins.range', 'numpy.any', 'numpy.all', 'numpy.isnan', 'numpy.argmax', 'numpy.argmin',
        'builtins.isinstance', 'builtins.bool', 'numpy.argsort', 'builtins.int', 'numpy.floor', 'numpy.ceil',
        'numpy.logical_and', 'numpy.logical_or', 'numpy.logical_not', 'numpy.unique', 'scipy.signal.find_peaks',
        'builtins.enumerate', 'builtins.str', 'builtins.list', 'builtins.tuple', 'numpy.isfinite',
        'multiprocessing.Pool', 'multiprocessing.current_process', 'builtins.ValueError'}
ZERO_IF_ZERO = {'numpy.cos', 'numpy.sin', 'numpy.exp', 'numpy.arctan', 'numpy.unwrap', 'numpy.tan', 'numpy.arccos',
                'numpy.arcsin', 'numpy.log', 'numpy.linspace', 'numpy.lib.scimath.sqrt', 'numpy.emath.sqrt', 'numpy.round',
                'numpy.arctan2', 'numpy.deg2rad', 'numpy.rad2deg', 'numpy.arccosh', 'numpy.tanh',
                'numpy.mod', 'numpy.cosh', 'numpy.sinh'}
ALLOC = {'numpy.zeros', 'numpy.empty'}
SAME_METH = {'copy', 'astype', 'flatten', 'ravel', 'squeeze', 'reshape', 'sum', 'mean', 'std', 'max', 'min', 'T',
             'cumsum', 'real', 'imag', 'transpose', 'toarray', 'tolist', 'dot_self', 'conj', 'clip', 'round'}


class DegreeAnalysis:
    def __init__(self, program, whitelist=None, overrides=None):
        self.P = program
        self.overrides = overrides or {}     # qualname -> degree of the result (stated assumption)
        self._caches = {}
        self.memo = {}
        self.issues = []
        self.stack = []
        self.whitelist = whitelist or (lambda issue: False)
        self.evaluated = set()
        self.paths = 0

    # ----------------------------------------------------------------- issues
    def issue(self, kind, term, detail):
        fn = self.stack[-1] if self.stack else '?'
        i = Issue(kind, term, fn, detail)
        if not self.whitelist(i):
            if not any(j.function == fn and j.key() == i.key() for j in self.issues):
                self.issues.append(i)

    # ---------------------------------------------------------------- degrees
    def deg(self, t, env, atoms=None):
        """memoised per (env, atoms) pair: terms are DAGs with heavy sharing"""
        cache = self._caches.get((id(env), id(atoms)))
        if cache is None:
            cache = self._caches[(id(env), id(atoms))] = {'#keep': (env, atoms)}
        if t in cache:
            return cache[t]
        d = self._deg(t, env, atoms)
        cache[t] = d
        return d

    def _deg(self, t, env, atoms=None):
        k = t[0]
        if t in env:
            return env[t]
        if atoms and t in atoms:
            return atoms[t]
        if k == 'c':
            v = t[1]
            if v is None or (isinstance(v, (int, float)) and not isinstance(v, bool) and v == 0):
                return ANY
            return 0
        if k in ('ref', 'func', 'lambda', 'fstr'):
            return 0
        if k == 's':
            return env.get(t, 0 if not t[1].startswith('arg:') else TOP)
        if k == 'bv':
            return env.get(t, TOP)
        if k == 'bin':
            op = t[1]
            a = self.deg(t[2], env, atoms)
            b = self.deg(t[3], env, atoms)
            if op in ('+', '-'):
                return self._add(a, b, t)
            if op in ('*', '@'):
                return self._mul(a, b, t)
            if op in ('/', '//'):
                return self._mul(a, self._neg(b), t)
            if op == '**':
                if is_c(t[3]) and isinstance(t[3][1], (int, float)):
                    return self._scale(a, Fraction(str(t[3][1])))
                if a in (0, ANY) and b in (0, ANY):
                    return 0
                return TOP
            if op == '%':
                if a in (0, ANY) and b in (0, ANY):
                    return 0
                return self._add(a, b, t)
            if op in ('&', '|', '^'):
                return 0
            return TOP
        if k == 'un':
            return self.deg(t[2], env, atoms) if t[1] in ('-', '+') else 0
        if k == 'cmp':
            if t[1] in ('is', 'isnot', 'in', 'notin'):
                return 0
            a = self.deg(t[2], env, atoms)
            b = self.deg(t[3], env, atoms)
            self._same(a, b, t, 'comparison')
            return 0
        if k in ('and', 'or'):
            for x in t[1]:
                self.deg(x, env, atoms)
            return 0
        if k == 'tuple' or k == 'list':
            if not t[1]:
                return ANY
            ds = [self.deg(x, env, atoms) for x in t[1]]
            return ('tup', tuple(ds))
        if k == 'dict':
            return 0
        if k == 'slice':
            return 0
        if k == 'sub':
            base = self.deg(t[1], env, atoms)
            if isinstance(base, tuple) and base[0] == 'seq':
                return base[1]
            if isinstance(base, tuple) and base[0] == 'tup':
                if is_c(t[2]) and isinstance(t[2][1], int) and -len(base[1]) <= t[2][1] < len(base[1]):
                    return base[1][t[2][1]]
                r = ANY
                for d in base[1]:
                    r = join(r, d)
                return r
            if t[1] == ('ref', 'numpy.r_') or t[1] == ('ref', 'numpy.c_'):
                parts = t[2][1] if t[2][0] == 'tuple' else (t[2],)
                r = ANY
                for p in parts:
                    r = self._add(r, self.deg(p, env, atoms), t)
                return r
            return base
        if k == 'attr':
            if t[2] in ('shape', 'ndim', 'size', 'dtype'):
                return 0
            return self.deg(t[1], env, atoms)
        if k == 'setitem':
            a = self.deg(t[1], env, atoms)
            v = self.deg(t[3], env, atoms)
            return self._add(a, v, t)
        if k == 'mut':
            b = self.deg(t[2], env, atoms)
            if t[1] in ('append', 'extend', 'insert') and t[3]:
                # a list that received an element scales like the join of what it held and what was added
                a = self.deg(t[3][-1], env, atoms)
                if isinstance(a, tuple) and a[0] == 'seq':
                    a = a[1]
                if isinstance(b, tuple) and b[0] == 'seq':
                    b = b[1]
                return join(b, a)
            return b
        if k == 'ifexp':
            return join(self.deg(t[2], env, atoms), self.deg(t[3], env, atoms))
        if k == 'comp':
            env2 = dict(env)
            for var, it, conds in t[3]:
                d = self.deg(it, env2, atoms)
                if isinstance(d, tuple) and d[0] == 'seq':
                    d = d[1]
                elif isinstance(d, tuple) and d[0] == 'tup':
                    r = ANY
                    for x in d[1]:
                        r = join(r, x)
                    d = r
                self._bind(var, d, env2)
            return self.deg(t[2], env2, atoms)
        if k == 'meth':
            name = t[1]
            b = self.deg(t[2], env, atoms)
            if name in SAME_METH:
                return b
            if name == 'dot':
                return self._mul(b, self.deg(t[3][0], env, atoms) if t[3] else TOP, t)
            if name in ('starmap', 'map'):
                return self._pool(t, env, atoms)
            if name in ('format', 'close', 'info', 'debug', 'warning', 'error', 'get_name', 'keys', 'items', 'pop',
                        'append', 'extend', 'split', 'lstrip', 'any', 'all', 'nonzero', 'argmax', 'argmin'):
                return 0
            return TOP
        if k == 'callv':
            # interpolant objects: pchip(locs, pks)(t) has the degree of pks
            return self.deg(t[1], env, atoms)
        if k == 'call':
            return self._call(t, env, atoms)
        return TOP

    def _bind(self, var, d, env):
        if var[0] == 'tuple':
            for v in var[1]:
                self._bind(v, d, env)
        else:
            env[var] = d

    def _neg(self, a):
        if is_num(a):
            return -a
        if a == ANY:
            return TOP          # division by a literal zero
        return a if a == HOM else TOP

    def _scale(self, a, n):
        if is_num(a):
            r = a * n
            return int(r) if r.denominator == 1 else r
        if a == ANY:
            return ANY
        return a if a == HOM else TOP

    def _add(self, a, b, t):
        if a == ANY:
            return b
        if b == ANY:
            return a
        if isinstance(a, tuple) and a[0] == 'log' and isinstance(b, tuple) and b[0] == 'log':
            r = a[1] + b[1] if t[1] == '+' else a[1] - b[1]
            return 0 if r == 0 else ('log', r)
        if isinstance(a, tuple) and a[0] == 'log' and b == 0:
            return a
        if isinstance(b, tuple) and b[0] == 'log' and a == 0:
            return b if t[0] != 'bin' or t[1] == '+' else ('log', -b[1])
        if a == b and (is_num(a) or a == HOM and False):
            return a
        if is_num(a) and is_num(b):
            self.issue('inhomogeneous sum', t, 'adds/subtracts degree %s and degree %s' % (a, b))
            return TOP
        if TOP in (a, b):
            return TOP
        if isinstance(a, tuple) and isinstance(b, tuple) and a[0] == 'tup' and b[0] == 'tup':
            return join(a, b)
        return TOP

    def _mul(self, a, b, t):
        if isinstance(a, tuple) and a[0] == 'log':
            if b in (0, ANY):
                c = self._const(t[3]) if t[0] == 'bin' else None
                return ('log', a[1] * c) if c is not None else TOP
            return TOP
        if isinstance(b, tuple) and b[0] == 'log':
            if a in (0, ANY):
                c = self._const(t[2]) if t[0] == 'bin' else None
                if t[0] == 'bin' and t[1] in ('/', '//'):
                    return TOP
                return ('log', b[1] * c) if c is not None else TOP
            return TOP
        if a == ANY or b == ANY:
            return ANY if (a == ANY and t[0] == 'bin' and t[1] in ('*', '/', '@')) or b == ANY else TOP
        if is_num(a) and is_num(b):
            r = a + b
            return int(r) if isinstance(r, Fraction) and r.denominator == 1 else r
        if TOP in (a, b):
            return TOP
        return HOM

    def _const(self, t):
        if is_c(t) and isinstance(t[1], (int, float)) and not isinstance(t[1], bool):
            return Fraction(str(t[1]))
        return None

    def _same(self, a, b, t, what):
        if ANY in (a, b) or a == b and (is_num(a)):
            return True
        if is_num(a) and is_num(b) and a != b:
            self.issue('scale-dependent ' + what, t, 'compares degree %s with degree %s' % (a, b))
            return False
        if TOP in (a, b) or HOM in (a, b) or isinstance(a, tuple) or isinstance(b, tuple):
            if a == b and isinstance(a, tuple) and a[0] == 'log':
                return True
            self.issue('undetermined ' + what, t, 'degrees %s vs %s' % (a, b))
            return False
        return True

    # ------------------------------------------------------------------ calls
    def _args(self, t, env, atoms):
        return [self.deg(x, env, atoms) for x in t[2]], {k: self.deg(v, env, atoms) for k, v in t[3]}

    def _call(self, t, env, atoms):
        d = self._call0(t, env, atoms)
        if d == TOP:
            # ANY (not yet resolved / literal zero) is the bottom of the lattice: it must not be turned into TOP
            pos, kw = self._args(t, env, atoms)
            if any(x == ANY for x in pos) or any(x == ANY for x in kw.values()):
                return ANY
        return d

    def _call0(self, t, env, atoms):
        name = t[1]
        if name in self.P.funcs and name not in SAME:
            return self._repo_call(t, env, atoms)
        pos, kw = self._args(t, env, atoms)
        if name in ('numpy.mean', 'numpy.sum', 'numpy.max', 'numpy.min', 'numpy.concatenate', 'numpy.hstack',
                    'numpy.vstack', 'numpy.array', 'numpy.stack') and pos and isinstance(pos[0], tuple) \
                and pos[0][0] == 'tup':
            r = ANY
            for d in _leaves(pos[0]):
                r = self._add(r, d, t)
            return r
        if name in ('numpy.append', 'numpy.insert') and len(pos) >= 2:
            # both operands end up in one array: they must have the same degree
            vals = pos[-1] if name == 'numpy.insert' else pos[1]
            return self._add(pos[0], vals, t)
        if name in SAME and pos:
            if name in ('numpy.zeros_like', 'numpy.ones_like'):
                return ANY if name.endswith('zeros_like') else 0
            if name == 'numpy.clip' and len(pos) >= 3:
                for b in pos[1:3]:
                    self._same(pos[0], b, t, 'clip bound')
            if name == 'numpy.average' and 'weights' in kw:
                return pos[0]
            return pos[0]
        if name in SAME and kw:
            d = kw.get('to_check')
            if isinstance(d, tuple) and d[0] == 'tup' and len(d[1]) == 1:
                return d[1][0]
            return d if d is not None else TOP
        if name in ZERO:
            if name == 'numpy.angle' and pos and pos[0] == TOP:
                return TOP
            return 0
        if name in ZERO_IF_ZERO:
            bad = [d for d in pos if d not in (0, ANY)]
            if bad:
                self.issue('transcendental function of a scaled quantity', t, 'argument degree %s' % bad[0])
                return TOP
            return 0
        if name in ALLOC:
            return ANY
        if name in ('numpy.ones', 'numpy.eye', 'numpy.full'):
            return 0
        if name == 'numpy.log10' and pos:
            d = pos[0]
            if is_num(d):
                return ('log', Fraction(d)) if d != 0 else 0
            return TOP
        if name in ('numpy.sqrt',) and pos:
            return self._scale(pos[0], Fraction(1, 2))
        if name in ('numpy.power',) and len(pos) == 2:
            c = self._const(t[2][1])
            return self._scale(pos[0], c) if c is not None else TOP
        if name == 'numpy.square' and pos:
            return self._scale(pos[0], 2)
        if name == 'numpy.pad' and pos:
            # constant_values pads would add a degree-0 constant; the default tables do not
            if 'constant_values' in kw:
                self._same(pos[0], kw['constant_values'], t, 'pad constant')
            return pos[0]
        if name == 'numpy.digitize' and len(pos) >= 2:
            self._same(pos[0], pos[1], t, 'binning')
            return 0
        if name in ('scipy.interpolate.splrep', 'scipy.interpolate.PchipInterpolator', 'scipy.interpolate.pchip',
                    'scipy.interpolate.interp1d') and len(pos) >= 2:
            if pos[0] not in (0, ANY):
                self.issue('scaled interpolation abscissa', t, 'knots have degree %s' % (pos[0],))
            return pos[1]
        if name == 'scipy.interpolate.splev' and len(pos) >= 2:
            return pos[1]
        if name == 'functools.partial' and t[2]:
            return 0
        if name.startswith('numpy.random.'):
            return 0
        if name == 'scipy.signal._peak_finding.peak_prominences' and pos:
            return ('tup', (pos[0], 0, 0))
        if name in ('numpy.isinf',):
            return 0
        return TOP

    def _pool(self, t, env, atoms):
        """p.starmap(worker, [tuple per member]) -> degree structure of one worker result"""
        from .rules.c06 import _decode_fref
        if len(t[3]) < 2:
            return TOP
        d = _decode_fref(self.P, t[3][0])
        args = t[3][1]
        if d is None or args[0] != 'comp':
            return TOP
        q, pp, pk, ps = d
        fi = self.P.funcs[q]
        env2 = dict(env)
        for var, it, conds in args[3]:
            # the loop variable scales like the elements it runs over (0 for ranges, the array's degree for its rows)
            d_it = self.deg(it, env2, atoms)
            if isinstance(d_it, tuple) and d_it[0] == 'seq':
                d_it = d_it[1]
            elif isinstance(d_it, tuple) and d_it[0] == 'tup':
                r = ANY
                for x in d_it[1]:
                    r = join(r, x)
                d_it = r
            self._bind(var, d_it, env2)
        elems = list(args[2][1]) if args[2][0] in ('tuple', 'list') else [args[2]]
        formals = list(fi.params)
        bound = {}
        allpos = list(pp) + elems
        for i, a in enumerate(allpos):
            if i < len(formals):
                bound[formals[i]] = a
        bound.update(pk)
        argdeg = {f: self.deg(a, env2, atoms) for f, a in bound.items()}
        ctx = {f: a[1] for f, a in bound.items() if is_c(a) and isinstance(a[1], (str, bool, type(None)))}
        return ('seq', self.summary(q, argdeg, ctx))

    def _repo_call(self, t, env, atoms):
        q = t[1]
        kw = dict(t[3])
        argdeg = {}
        ctx = {}
        for f, a in kw.items():
            if f == '**':
                continue
            argdeg[f] = self.deg(a, env, atoms)
            if is_c(a) and isinstance(a[1], (str, bool, type(None))):
                ctx[f] = a[1]
        return self.summary(q, argdeg, ctx)

    # -------------------------------------------------------------- summaries
    def summary(self, q, argdeg, context=None):
        """Degree structure of the value returned by repo function q when its formals have degrees argdeg."""
        fi = self.P.funcs[q]
        if q in self.overrides:
            return self.overrides[q]
        context = {k: v for k, v in (context or {}).items() if k in fi.all_formals()}
        key = (q, tuple(sorted((k, _freeze(v)) for k, v in argdeg.items() if v not in (0,))),
               tuple(sorted(context.items(), key=lambda kv: kv[0])))
        if key in self.memo:
            return self.memo[key]
        if q in self.stack or len(self.stack) > 8:
            return TOP
        self.memo[key] = TOP
        self.stack.append(q)
        try:
            ev = Evaluator(self.P)
            exits = ev.run(fi, context=context)
            self.paths += len(exits)
            self.evaluated.add(q)
            env = {}
            for f in fi.all_formals():
                if f in argdeg:
                    env[S(f)] = argdeg[f]
            r = None
            atom_memo = {}
            for e in exits:
                self._caches.clear()
                lk = frozenset(id(ls) for ls in e.state.loops)
                if lk not in atom_memo:
                    atom_memo[lk] = self._loop_atoms(e.state, env)
                atoms = atom_memo[lk]
                self._caches.clear()
                for c, truth, ln in e.state.conds:
                    self._cond(c, env, atoms)
                if e.kind != 'return':
                    continue
                if is_c(e.value) and e.value[1] is None:
                    continue
                d = self.deg(e.value, env, atoms)
                d = _strip_none(d, e.value)
                r = d if r is None else join(r, d)
            res = r if r is not None else 0
        finally:
            self.stack.pop()
        self.memo[key] = res
        return res

    def _cond(self, c, env, atoms):
        """A branch condition must be scale-free."""
        if c[0] == 'cmp':
            self.deg(c, env, atoms)
        elif c[0] in ('and', 'or'):
            for x in c[1]:
                self._cond(x, env, atoms)
        elif c[0] == 'un':
            self._cond(c[2], env, atoms)
        elif c[0] == 'call' and c[1] in ('builtins.all', 'builtins.any', 'numpy.all', 'numpy.any'):
            for x in c[2]:
                self.deg(x, env, atoms)
        else:
            d = self.deg(c, env, atoms)
            if c[0] in ('sub', 'call') and d not in (0, ANY) and not (isinstance(d, tuple) and d[0] == 'tup'):
                self.issue('scale-dependent truth test', c, 'condition value has degree %s' % (d,))

    def _loop_atoms(self, st, env):
        """Degrees of loop-carried variables: least fixpoint of  entry value JOIN values assigned in the body."""
        atoms = {}
        heads = []
        allloops = []
        seen = set()
        stack = list(st.loops)
        while stack:
            ls = stack.pop()
            if id(ls) in seen:
                continue
            seen.add(id(ls))
            allloops.append(ls)
            for kind, b in ls.body_states:
                stack.extend(b.loops)
        for ls in allloops:
            if ls.var is not None:
                self._bind(ls.var, 0, atoms)
            for name, head in ls.head_env.items():
                if head[0] == 's' and '@' in head[1]:
                    heads.append((ls, name, head))
                    atoms[head] = ANY
                    atoms[S(head[1] + 'post')] = ANY
        for _ in range(6):
            # Jacobi round: all classes are recomputed against one snapshot, so the term cache stays valid
            new = {}
            for ls, name, head in heads:
                entry = ls.entry_env.get(name)
                cls = self._quiet_deg(entry, env, atoms) if entry is not None else ANY
                if entry is not None and _is_container_alloc(entry) and _column_writes_only(ls, name, head):
                    # an array that is only a container: allocated (ones / empty / full) and then written column by
                    # column; what it was filled with does not reach the result where the loops reach (their ranges
                    # are checked by the rules that own the array, e.g. C09.R6)
                    cls = ANY
                for term in {b.env[name] for kind, b in ls.body_states if name in b.env}:
                    cls = join(cls, self._quiet_deg(term, env, atoms))
                new[head] = cls
            changed = False
            for head, cls in new.items():
                if atoms[head] != cls:
                    atoms[head] = cls
                    atoms[S(head[1] + 'post')] = cls
                    changed = True
            self._caches.pop((id(env), id(atoms)), None)
            if not changed:
                break
        return atoms

    def _quiet_deg(self, t, env, atoms):
        # not silenced: ANY is the bottom of the lattice, so partially resolved loop atoms never create an issue
        # that the final assignment would not also create
        return self.deg(t, env, atoms)


def _is_container_alloc(t):
    while t[0] == 'meth' and t[1] in ('astype', 'copy'):
        t = t[2]
    return t[0] == 'call' and t[1] in ('numpy.ones_like', 'numpy.empty_like', 'numpy.ones', 'numpy.empty', 'numpy.full',
                                       'numpy.full_like', 'numpy.zeros', 'numpy.zeros_like')


def _column_writes_only(ls, name, head):
    """every value the variable takes in the loop body is the head with whole columns replaced: X{[(:, i, ...)] := v}"""
    FULL = ('slice', ('c', None), ('c', None), ('c', None))

    def ok(t, depth=0):
        if t == head:
            return True
        if t[0] == 's' and '@' in t[1]:
            return True           # the same array carried by an inner loop
        if t[0] == 'setitem' and t[2][0] == 'tuple' and t[2][1] and t[2][1][0] == FULL and depth < 8:
            return ok(t[1], depth + 1)
        return False
    vals = [b.env[name] for kind, b in ls.body_states if name in b.env]
    return bool(vals) and all(ok(v) for v in vals)


def _leaves(d):
    if isinstance(d, tuple) and d and d[0] == 'tup':
        for x in d[1]:
            for y in _leaves(x):
                yield y
    else:
        yield d


def _freeze(d):
    if isinstance(d, tuple):
        return tuple(_freeze(x) if isinstance(x, tuple) else x for x in d)
    return d


def _strip_none(d, term):
    return d
