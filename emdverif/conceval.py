"""Concrete evaluation of small condition terms on representative *shape lists*: used to decide, without running the
repository, which path of a validation routine (ensure_equal_dims) is taken for given array shapes.

Values are plain Python objects; an array is an `Arr` (only .shape / .ndim exist), the result of np.array(<tuple>) is
an `NList` (a list that accepts a list of positions as index, like a numpy vector), np.all / np.any return an `NBool`
(numpy booleans are never *identical* to the objects True / False, so `np.all(x) is False` is always false).
Anything outside the interpreted fragment raises Undecided."""
import operator

from .paths import is_c, show


class Undecided(Exception):
    pass


class Arr:
    def __init__(self, shape):
        self.shape = tuple(shape)
        self.ndim = len(self.shape)

    def __repr__(self):
        return 'Arr%s' % (self.shape,)


class NList(list):
    pass


class NBool:
    def __init__(self, v):
        self.v = bool(v)

    def __bool__(self):
        return self.v

    def __eq__(self, o):
        return NBool(self.v == bool(o))

    def __ne__(self, o):
        return NBool(self.v != bool(o))

    def __hash__(self):
        return hash(self.v)

    def __repr__(self):
        return 'np.%s_' % self.v


OPS = {'<': operator.lt, '<=': operator.le, '>': operator.gt, '>=': operator.ge, '==': operator.eq, '!=': operator.ne}


class ConcEval:
    def __init__(self, bind):
        self.bind = dict(bind)     # term -> python value

    def ev(self, t):
        if t in self.bind:
            return self.bind[t]
        k = t[0]
        if k == 'c':
            return t[1]
        if k in ('list', 'tuple'):
            vals = [self.ev(x) for x in t[1]]
            return vals if k == 'list' else tuple(vals)
        if k == 'attr':
            b = self.ev(t[1])
            if isinstance(b, Arr) and t[2] in ('shape', 'ndim'):
                return getattr(b, t[2])
            raise Undecided('attribute .%s of %r' % (t[2], b))
        if k == 'slice':
            return slice(*[self.ev(x) for x in t[1:4]])
        if k == 'sub':
            b = self.ev(t[1])
            i = self.ev(t[2])
            if isinstance(b, (list, tuple, range)):
                if isinstance(i, (int, slice)) and not isinstance(i, bool):
                    try:
                        r = b[i]
                    except IndexError:
                        raise Undecided('IndexError')
                    return NList(r) if isinstance(b, NList) and isinstance(i, slice) else r
                if isinstance(i, (list, range, tuple)) and isinstance(b, NList):
                    return NList(b[j] for j in i)
            raise Undecided('subscript %r[%r]' % (b, i))
        if k == 'comp':
            out = []

            def rec(gi):
                if gi == len(t[3]):
                    out.append(self.ev(t[2]))
                    return
                var, it, conds = t[3][gi]
                for v in self.ev(it):
                    self._bindvar(var, v)
                    if all(bool(self.ev(c)) for c in conds):
                        rec(gi + 1)
            rec(0)
            if t[1] == 'set':
                return set(out)
            if t[1] == 'dict':
                return dict(out)
            return out
        if k == 'cmp':
            a, b = self.ev(t[2]), self.ev(t[3])
            op = t[1]
            if op in ('is', 'isnot'):
                same = (a is b) and not isinstance(a, NBool)
                return same if op == 'is' else not same
            if op in ('in', 'notin'):
                r = a in b
                return r if op == 'in' else not r
            try:
                if isinstance(a, NList) or isinstance(b, NList):
                    if isinstance(a, NList) and isinstance(b, NList):
                        if len(a) != len(b):
                            raise Undecided('elementwise comparison of different lengths')
                        return NList(OPS[op](x, y) for x, y in zip(a, b))
                    v, s = (a, b) if isinstance(a, NList) else (b, a)
                    return NList(OPS[op](x, s) if v is a else OPS[op](s, x) for x in v)
                return OPS[op](a, b)
            except TypeError:
                raise Undecided('comparison %r %s %r' % (a, op, b))
        if k == 'un' and t[1] == 'not':
            return not bool(self.ev(t[2]))
        if k == 'not':
            return not bool(self.ev(t[1]))
        if k in ('and', 'or'):
            vals = [bool(self.ev(x)) for x in t[1]]
            return all(vals) if k == 'and' else any(vals)
        if k == 'ifexp':
            return self.ev(t[2]) if bool(self.ev(t[1])) else self.ev(t[3])
        if k == 'bin':
            a, b = self.ev(t[2]), self.ev(t[3])
            try:
                return {'+': operator.add, '-': operator.sub, '*': operator.mul}[t[1]](a, b)
            except (KeyError, TypeError):
                raise Undecided('binary %s on %r, %r' % (t[1], a, b))
        if k == 'call':
            name = t[1]
            args = [self.ev(x) for x in t[2]]
            if name in ('numpy.array', 'numpy.asarray', 'numpy.asanyarray') and len(args) == 1 \
                    and isinstance(args[0], (list, tuple)):
                return NList(args[0])
            if name == 'numpy.arange' and len(args) == 1 and isinstance(args[0], int):
                return list(range(args[0]))
            if name == 'numpy.atleast_1d' and len(args) == 1:
                return NList(args[0]) if isinstance(args[0], (list, tuple)) else NList([args[0]])
            if name == 'builtins.range':
                return range(*args)
            if name == 'builtins.tuple' and len(args) == 1:
                return tuple(args[0])
            if name == 'builtins.list' and len(args) == 1:
                return list(args[0])
            if name == 'builtins.set' and len(args) == 1:
                return set(args[0])
            if name == 'builtins.len' and len(args) == 1 and hasattr(args[0], '__len__'):
                return len(args[0])
            if name == 'builtins.zip':
                return list(zip(*args))
            if name == 'builtins.enumerate' and len(args) == 1:
                return list(enumerate(args[0]))
            if name == 'builtins.bool' and len(args) == 1:
                return bool(args[0])
            if name in ('numpy.all', 'numpy.alltrue') and len(args) == 1:
                return NBool(all(bool(x) for x in args[0]) if hasattr(args[0], '__iter__') else bool(args[0]))
            if name in ('numpy.any',) and len(args) == 1:
                return NBool(any(bool(x) for x in args[0]) if hasattr(args[0], '__iter__') else bool(args[0]))
            if name == 'builtins.all' and len(args) == 1:
                return all(bool(x) for x in args[0])
            if name == 'builtins.any' and len(args) == 1:
                return any(bool(x) for x in args[0])
            if name in ('numpy.shape',) and len(args) == 1 and isinstance(args[0], Arr):
                return args[0].shape
            if name in ('numpy.ndim',) and len(args) == 1 and isinstance(args[0], Arr):
                return args[0].ndim
            raise Undecided('call %s' % name)
        if k == 'meth':
            b = self.ev(t[2])
            if t[1] == 'count' and isinstance(b, (list, tuple)) and len(t[3]) == 1:
                return b.count(self.ev(t[3][0]))
            if t[1] in ('all', 'any') and isinstance(b, NList):
                return NBool(all(b) if t[1] == 'all' else any(b))
            raise Undecided('method .%s' % t[1])
        raise Undecided('term %s' % show(t)[:60])

    def _bindvar(self, var, v):
        if var[0] == 'bv':
            self.bind[var] = v
        elif var[0] in ('tuple', 'list'):
            for x, y in zip(var[1], v):
                self._bindvar(x, y)
        else:
            raise Undecided('loop target %s' % show(var))
