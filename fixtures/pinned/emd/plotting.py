#!/usr/bin/python

# vim: set expandtab ts=4 sw=4:

"""
Routines for plotting results of EMD analyses.

Main Routines:
  plot_imfs
  plot_hilberthuang
  plot_holospectrum

Utilities:
  _get_log_tickpos

"""

import numpy as np
import matplotlib.pyplot as plt
from matplotlib.colors import Colormap
from matplotlib import ticker
from mpl_toolkits.axes_grid1 import make_axes_locatable


def plot_imfs(imfs, time_vect=None, sample_rate=1, scale_y=False, freqs=None, cmap=None, fig=None):
    """Create a quick summary plot for a set of IMFs.

    Parameters
    ----------
    imfs : ndarray
        2D array of IMFs to plot
    time_vect : ndarray
         Optional 1D array specifying time values (Default value = None)
    sample_rate : float
        Optional sample rate to determine time axis values if time_vect is not
        specified if time_vect is given.
    scale_y : Boolean
         Flag indicating whether the y-axis should be adative to each mode
         (False) or consistent across modes (True) (Default value = False)
    freqs : array_like
        Optional vector of frequencies for each IMF
    cmap : {None,True,matplotlib colormap}
        Optional colourmap to use. None will plot each IMF in black and True will
        use the plt.cm.Dark2 colormap as default. A different colormap may also
        be passed in.

    """
    nplots = imfs.shape[1] + 1
    if time_vect is None:
        time_vect = np.linspace(0, imfs.shape[0]/sample_rate, imfs.shape[0])

    mx = np.abs(imfs).max()
    mx_sig = np.abs(imfs.sum(axis=1)).max()

    if fig is None:
        fig = plt.figure()

    ax = fig.add_subplot(nplots, 1, 1)
    if scale_y:
        ax.yaxis.get_major_locator().set_params(integer=True)
    for tag in ['top', 'right', 'bottom']:
        ax.spines[tag].set_visible(False)
    ax.plot((time_vect[0], time_vect[-1]), (0, 0), color=[.5, .5, .5])
    ax.plot(time_vect, imfs.sum(axis=1), 'k')
    ax.tick_params(axis='x', labelbottom=False)
    ax.set_xlim(time_vect[0], time_vect[-1])
    ax.set_ylim(-mx_sig * 1.1, mx_sig * 1.1)
    ax.set_ylabel('Signal', rotation=0, labelpad=10)

    if cmap is True:
        # Use default colormap
        cmap = plt.cm.Dark2
        cols = cmap(np.linspace(0, 1, imfs.shape[1] + 1))
    elif isinstance(cmap, Colormap):
        # Use specified colormap
        cols = cmap(np.linspace(0, 1, imfs.shape[1] + 1))
    else:
        # Use all black lines - this is overall default
        cols = np.array([[0, 0, 0] for ii in range(imfs.shape[1] + 1)])

    for ii in range(1, nplots):
        ax = fig.add_subplot(nplots, 1, ii + 1)
        for tag in ['top', 'right', 'bottom']:
            ax.spines[tag].set_visible(False)
        ax.plot((time_vect[0], time_vect[-1]), (0, 0), color=[.5, .5, .5])
        ax.plot(time_vect, imfs[:, ii - 1], color=cols[ii, :])
        ax.set_xlim(time_vect[0], time_vect[-1])
        if scale_y:
            ax.set_ylim(-mx * 1.1, mx * 1.1)
            ax.yaxis.get_major_locator().set_params(integer=True)
        ax.set_ylabel('IMF {0}'.format(ii), rotation=0, labelpad=10)

        if ii < nplots - 1:
            ax.tick_params(axis='x', labelbottom=False)
        else:
            ax.set_xlabel('Time')
        if freqs is not None:
            ax.set_title(freqs[ii - 1], fontsize=8)

    fig.subplots_adjust(top=.95, bottom=.1, left=.2, right=.99)


def plot_hilberthuang(hht, time_vect, freq_vect,
                      time_lims=None, freq_lims=None, log_y=False,
                      vmin=0, vmax=None,
                      fig=None, ax=None, cmap='hot_r'):
    """Create a quick summary plot for a Hilbert-Huang Transform.

    Parameters
    ----------
    hht : 2d array
        Hilbert-Huang spectrum to be plotted - output from emd.spectra.hilberthuang
    time_vect : vector
        Vector of time samples
    freq_vect : vector
        Vector of frequency bins
    time_lims : optional tuple or list (start_val, end_val)
        Optional time-limits to zoom in time on the x-axis
    freq_lims : optional tuple or list (start_val, end_val)
        Optional time-limits to zoom in frequency on the y-axis
    fig : optional figure handle
        Figure to plot inside
    ax : optional axis handle
        Axis to plot inside
    cmap : optional str or matplotlib.cm
        Colormap specification

    Returns
    -------
    ax
        Handle of plot axis

    """
    # Make figure if no fig or axis are passed
    if (fig is None) and (ax is None):
        fig = plt.figure()

    # Create axis if no axis is passed.
    if ax is None:
        ax = fig.add_subplot(1, 1, 1)

    # Get time indices
    if time_lims is not None:
        tinds = np.logical_and(time_vect >= time_lims[0], time_vect <= time_lims[1])
    else:
        tinds = np.ones_like(time_vect).astype(bool)

    # Get frequency indices
    if freq_lims is not None:
        finds = np.logical_and(freq_vect >= freq_lims[0], freq_vect <= freq_lims[1])
    else:
        finds = np.ones_like(freq_vect).astype(bool)
        freq_lims = (freq_vect[0], freq_vect[-1])

    # Make space for colourbar
    divider = make_axes_locatable(ax)
    cax = divider.append_axes('right', size='5%', pad=0.05)

    if vmax is None:
        vmax = np.max(hht[np.ix_(finds, tinds)])

    # Make main plot
    pcm = ax.pcolormesh(time_vect[tinds], freq_vect[finds], hht[np.ix_(finds, tinds)],
                        vmin=vmin, vmax=vmax, cmap=cmap, shading='nearest')

    # Set labels
    ax.set_xlabel('Time')
    ax.set_ylabel('Frequency')
    ax.set_title('Hilbert-Huang Transform')

    # Scale axes if requestedd
    if log_y:
        ax.set_yscale('log')
        ax.set_yticks((_get_log_tickpos(freq_lims[0], freq_lims[1])))
        ax.get_yaxis().set_major_formatter(ticker.ScalarFormatter())

    # Add colourbar
    plt.colorbar(pcm, cax=cax, orientation='vertical')

    return ax


def plot_holospectrum(holo, freq_vect, am_freq_vect,
                      freq_lims=None, am_freq_lims=None,
                      log_x=False, log_y=False,
                      vmin=0, vmax=None,
                      fig=None, ax=None, cmap='hot_r', mask=True):
    """Create a quick summary plot for a Holospectrum.

    Parameters
    ----------
    holo : 2d array
        Hilbert-Huang spectrum to be plotted - output from emd.spectra.holospectrum
    freq_vect : vector
        Vector of frequency values for first-layer
    am_freq_vect : vector
        Vector of frequency values for amplitude modulations in second--layer
    freq_lims : optional tuple or list (start_val, end_val)
        Optional time-limits to zoom in frequency on the y-axis
    am_freq_lims : optional tuple or list (start_val, end_val)
        Optional time-limits to zoom in amplitude modulation frequency on the x-axis
    log_x : bool
        Flag indicating whether to set log-scale on x-axis
    log_y : bool
        Flag indicating whether to set log-scale on y-axis
    fig : optional figure handle
        Figure to plot inside
    ax : optional axis handle
        Axis to plot inside
    cmap : optional str or matplotlib.cm
        Colormap specification

    Returns
    -------
    ax
        Handle of plot axis

    """
    # Make figure if no fig or axis are passed
    if (fig is None) and (ax is None):
        fig = plt.figure()

    # Create axis if no axis is passed.
    if ax is None:
        ax = fig.add_subplot(1, 1, 1)

    # Get frequency indices
    if freq_lims is not None:
        finds = np.logical_and(freq_vect > freq_lims[0], freq_vect < freq_lims[1])
    else:
        finds = np.ones_like(freq_vect).astype(bool)

    # Get frequency indices
    if am_freq_lims is not None:
        am_finds = np.logical_and(am_freq_vect > am_freq_lims[0], am_freq_vect < am_freq_lims[1])
    else:
        am_finds = np.ones_like(am_freq_vect).astype(bool)

    plot_holo = holo.copy()
    if mask:
        for ii in range(len(freq_vect)):
            for jj in range(len(am_freq_vect)):
                if freq_vect[ii] < am_freq_vect[jj]:
                    plot_holo[jj, ii] = np.nan

    # Set colourmap
    if isinstance(cmap, str):
        cmap = getattr(plt.cm, cmap)
    elif cmap is None:
        cmap = getattr(plt.cm, cmap)

    # Set mask values in colourmap
    cmap.set_bad([0.8, 0.8, 0.8])

    # Make space for colourbar
    divider = make_axes_locatable(ax)
    cax = divider.append_axes('right', size='5%', pad=0.05)

    if vmax is None:
        vmax = np.max(plot_holo[np.ix_(am_finds, finds)])

    # Make main plot
    pcm = ax.pcolormesh(am_freq_vect[am_finds], freq_vect[finds], plot_holo[np.ix_(am_finds, finds)].T,
                        cmap=cmap, vmin=vmin, vmax=vmax, shading='nearest')

    # Set labels
    ax.set_xlabel('Amplitude Modulation Frequency')
    ax.set_ylabel('Carrier Wave Frequency')
    ax.set_title('Holospectrum')

    # Scale axes if requestedd
    if log_y:
        ax.set_yscale('log')
        ax.set_yticks((_get_log_tickpos(freq_lims[0], freq_lims[1])))
        ax.get_yaxis().set_major_formatter(ticker.ScalarFormatter())

    if log_x:
        ax.set_xscale('log')
        ax.set_xticks((_get_log_tickpos(am_freq_lims[0], am_freq_lims[1])))
        ax.get_xaxis().set_major_formatter(ticker.ScalarFormatter())

    # Add colourbar
    plt.colorbar(pcm, cax=cax, orientation='vertical')

    return ax


def _get_log_tickpos(lo, hi, tick_rate=5, round_vals=True):
    """Generate tick positions for log-scales.

    Parameters
    ----------
    lo : float
        Low end of frequency range
    hi : float
        High end of frequency range
    tick_rate : int
        Number of ticks per order-of-magnitude
    round_vals : bool
        Flag indicating whether ticks should be rounded to first non-zero value.

    Returns
    -------
    ndarray
        Vector of tick positions

    """
    lo_oom = np.floor(np.log10(lo)).astype(int)
    hi_oom = np.ceil(np.log10(hi)).astype(int) + 1
    ticks = []
    log_tick_pos_inds = np.round(np.logspace(1, 2, tick_rate)).astype(int) - 1
    for ii in range(lo_oom, hi_oom):
        tks = np.linspace(10**ii, 10**(ii+1), 100)[log_tick_pos_inds]
        if round_vals:
            ticks.append(np.round(tks / 10**ii)*10**ii)
        else:
            ticks.append(tks)
        #ticks.append(np.logspace(ii, ii+1, tick_rate))

    ticks = np.unique(np.r_[ticks])
    inds = np.logical_and(ticks > lo, ticks < hi)
    return ticks[inds]
