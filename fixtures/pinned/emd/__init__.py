#!/usr/bin/python

# vim: set expandtab ts=4 sw=4:

"""
Package for Empirical Mode Decomposition analyses.

Submodules:
    sift - compute Intrinsic Mode Functions from time-series
    spectra - compute frequency transforms and power spectra
    plotting - helper functions for producing figures
    cycles - routines for analysing single cycles
    logger - routines for logging analysis

"""

from . import spectra  # noqa: F401, F403
from . import utils  # noqa: F401, F403
from . import plotting  # noqa: F401, F403
from . import example  # noqa: F401, F403
from . import logger  # noqa: F401, F403
from . import cycles  # noqa: F401, F403
from . import _cycles_support  # noqa: F401, F403
from . import sift  # noqa: F401, F403
from . import support  # noqa: F401, F403

__version__ = support.get_installed_version()
