#!/usr/bin/python

# vim: set expandtab ts=4 sw=4:

"""
Routines used for generating examples.

Routines:
  abreu

"""

import numpy as np

from . import utils, sift, spectra


def abreu(nonlinearity_deg=.3, nonlinearity_phi=-np.pi / 4,
          seconds=10, freq=1, sample_rate=1000, noise=0):
    """Generate an example analysis of an Abreu2010 type wave [1]_.

    Parameters
    ----------
    nonlinearity_deg :
         (Default value = .3)
    nonlinearity_phi :
         (Default value = -np.pi/4)
    seconds :
         (Default value = 10)
    freq :
         (Default value = 1)
    sample_rate :
         (Default value = 1000)
    noise :
         (Default value = 0)

    Returns
    -------
    ndarray
        Set of IMFs
    ndarray
        Time vector
    narray
        Set of instantaneous phases
    narray
        Set of instantaneous frequencies
    narray
        Set of instantaneous amplitudes

    References
    ----------
    .. [1] Abreu, T., Silva, P. A., Sancho, F., & Temperville, A. (2010).
    Analytical approximate wave form for asymmetric waves. Coastal Engineering,
    57(7), 656–667. https://doi.org/10.1016/j.coastaleng.2010.02.005

    """
    num_samples = sample_rate * seconds

    time_vect = np.linspace(0, seconds, num_samples)

    x = utils.abreu2010(freq, nonlinearity_deg, nonlinearity_phi, sample_rate, seconds)
    x = x + np.random.randn(*x.shape) * noise

    imf = sift.sift(x)

    IP, IF, IA = spectra.frequency_transform(imf, sample_rate, 'quad', smooth_phase=31)

    return imf, time_vect, IP, IF, IA
