"""Catalogue of edits used to validate the checker in both directions.

Each entry: id, file, old (unique text in the current tree), new, kind ('breaking' | 'benign'),
props (checks to run; for breaking edits at least one must exit 1), optional expect (substring
that must appear in the report, usually the rule id).
"""
S = 'emd/sift.py'
CATALOGUE = []


def add(id, file, old, new, kind, props, expect=None):
    CATALOGUE.append(dict(id=id, file=file, old=old, new=new, kind=kind, props=props, expect=expect))


# ---------------------------------------------------------------- C01 / C04 core
add('c01-late-flag', S, "            if niters == 1:\n                # Only the unmodified input can be flagged as the final residual\n                continue_flag = False\n",
    "            continue_flag = False\n", 'breaking', ['C01', 'C04'], 'R2')
add('c01-resid-from-next', S, "        proto_imf = X - imf.sum(axis=1)[:, None]\n        layer += 1",
    "        proto_imf = X - next_imf\n        layer += 1", 'breaking', ['C01'], 'C01.R1')
add('c01-resid-axis0', S, "        proto_imf = X - imf.sum(axis=1)[:, None]\n        layer += 1",
    "        proto_imf = X - imf.sum(axis=0)[:, None]\n        layer += 1", 'breaking', ['C01'], 'C01.R1')
add('c01-resid-incremental-benign', S, "        proto_imf = X - imf.sum(axis=1)[:, None]\n        layer += 1",
    "        proto_imf = proto_imf - next_imf\n        layer += 1", 'benign', ['C01', 'C03'])
add('c01-extra-exit', S, "        if np.abs(next_imf).sum() < sift_thresh:\n            logger.info('Finishing sift: reached threshold {0}'.format(np.abs(next_imf).sum()))",
    "        if layer > 20:\n            continue_sift = False\n\n        if np.abs(next_imf).sum() < sift_thresh:\n            logger.info('Finishing sift: reached threshold {0}'.format(np.abs(next_imf).sum()))",
    'breaking', ['C01'], 'C01.R3')
add('c01-thresh-on-resid', S, "        if np.abs(next_imf).sum() < sift_thresh:\n            logger.info('Finishing sift: reached threshold {0}'.format(np.abs(next_imf).sum()))",
    "        if np.abs(proto_imf).sum() < sift_thresh:\n            logger.info('Finishing sift: reached threshold {0}'.format(np.abs(next_imf).sum()))",
    'breaking', ['C01'], 'C01.R3')
add('c01-none-size2', S, "    if (len(max_locs) == 0) or (max_locs.size <= 1):", "    if (len(max_locs) == 0) or (max_locs.size <= 2):",
    'breaking', ['C01'], 'C01.R4')
add('c01-none-lt1', S, "    if (len(max_locs) == 0) or (max_locs.size <= 1):", "    if (len(max_locs) == 0) or (max_locs.size < 1):",
    'breaking', ['C01'], 'C01.R4')
add('c01-none-equiv-benign', S, "    if (len(max_locs) == 0) or (max_locs.size <= 1):", "    if max_locs.size < 2:",
    'benign', ['C01', 'C04'])
add('c04-half-missing', S, "        avg = np.mean([upper, lower], axis=0)[:, None]\n\n        # Remove local mean estimate from proto imf",
    "        avg = np.sum([upper, lower], axis=0)[:, None]\n\n        # Remove local mean estimate from proto imf", 'breaking', ['C04'], 'C04.R1')
add('c04-mean-form-benign', S, "        avg = np.mean([upper, lower], axis=0)[:, None]\n\n        # Remove local mean estimate from proto imf",
    "        avg = ((upper + lower) / 2)[:, None]\n\n        # Remove local mean estimate from proto imf", 'benign', ['C04', 'C01'])
add('c04-step-on-return', S, "            proto_imf = x1.copy()\n            continue_imf = False",
    "            proto_imf = proto_imf - env_step_size*avg\n            continue_imf = False", 'breaking', ['C04'], 'C04.R1')
add('c04-return-unsifted', S, "            proto_imf = x1.copy()\n            continue_imf = False",
    "            continue_imf = False", 'breaking', ['C04'], 'C04.R1')
add('c04-no-step', S, "        proto_imf = proto_imf - (env_step_size*avg)", "        proto_imf = proto_imf - avg", 'breaking', ['C04'], 'C04.R1')
add('c04-swap-sd-args', S, "stop, _ = sd_stop(proto_imf, x1, sd=sd_thresh, niters=niters)",
    "stop, _ = sd_stop(x1, proto_imf, sd=sd_thresh, niters=niters)", 'breaking', ['C04'], 'C04.R2')
add('c04-swap-rilling', S, "sd1=rilling_thresh[0],\n                                   sd2=rilling_thresh[1],",
    "sd1=rilling_thresh[1],\n                                   sd2=rilling_thresh[0],", 'breaking', ['C04'], 'C04.R2')
add('c04-sd-flip', S, "    stop = metric < sd\n", "    stop = metric > sd\n", 'breaking', ['C04'], 'C04.R3')
add('c04-sd-denominator', S, "np.sum((proto_imf - prev_imf)**2) / np.sum(proto_imf**2)", "np.sum((proto_imf - prev_imf)**2) / np.sum(prev_imf**2)",
    'breaking', ['C04'], 'C04.R3')
add('c04-rilling-all', S, "    continue2 = np.any(eval_metric > sd2)", "    continue2 = np.all(eval_metric > sd2)", 'breaking', ['C04'], 'C04.R3')
add('c04-rilling-and', S, "    stop = (continue1 or continue2) == False  # noqa: E712", "    stop = (continue1 and continue2) == False  # noqa: E712",
    'breaking', ['C04'], 'C04.R3')
add('c04-rilling-not-benign', S, "    stop = (continue1 or continue2) == False  # noqa: E712", "    stop = not (continue1 or continue2)",
    'benign', ['C04'])
add('c04-fixed-offbyone', S, "    stop = bool(niters == max_iters)", "    stop = bool(niters == max_iters - 1)", 'breaking', ['C04'], 'C04.R3')
add('c04-no-raise', S, "                raise EMDSiftCovergeError(msg)", "                logger.warning(msg)", 'breaking', ['C04'], 'C04.R4')
add('c04-counter-conditional', S, "        niters += 1\n\n        upper = interp_envelope(proto_imf, mode='upper',",
    "        if stop_method != 'sd':\n            niters += 1\n\n        upper = interp_envelope(proto_imf, mode='upper',", 'breaking', ['C04'], 'C04.R4')
add('c04-early-break', S, "        # Find local mean\n        avg = np.mean([upper, lower], axis=0)[:, None]\n\n        # Remove local mean estimate from proto imf",
    "        if niters > 50:\n            break\n        # Find local mean\n        avg = np.mean([upper, lower], axis=0)[:, None]\n\n        # Remove local mean estimate from proto imf",
    'breaking', ['C04'], 'C04.R4')
add('c04-energy-operand', S, "        energy_db = _energy_difference(X, X-proto_imf)", "        energy_db = _energy_difference(proto_imf, X-proto_imf)",
    'breaking', ['C04'], 'C04.R6')
add('c04-energy-flip', S, "        if energy_db > energy_thresh:", "        if energy_db < energy_thresh:", 'breaking', ['C04'], 'C04.R6')
add('c04-lower-from-stale', S, "        lower = interp_envelope(proto_imf, mode='lower',\n                                **envelope_opts, extrema_opts=extrema_opts)\n\n        # If upper",
    "        lower = interp_envelope(X, mode='lower',\n                                **envelope_opts, extrema_opts=extrema_opts)\n\n        # If upper", 'breaking', ['C04'], 'C04.R1')
