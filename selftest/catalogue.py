"""Catalogue of edits used to validate the checker in both directions.

Each entry: id, file, old (unique text in the current tree), new, kind ('breaking' | 'benign'),
props (checks to run; for breaking edits at least one must exit 1), optional expect (substring
that must appear in the report, usually the rule id).
"""
S = 'emd/sift.py'
CATALOGUE = []


def add(id, file, old, new, kind, props, expect=None):
    CATALOGUE.append(dict(id=id, file=file, old=old, new=new, kind=kind, props=props, expect=expect))


# ---------------------------------------------------------------- C01 / C04 core
add('c01-late-flag', S, "            if niters == 1:\n                # Only the unmodified input can be flagged as the final residual\n                continue_flag = False\n",
    "            continue_flag = False\n", 'breaking', ['C01', 'C04'], 'R2')
add('c01-resid-from-next', S, "        proto_imf = X - imf.sum(axis=1)[:, None]\n        layer += 1",
    "        proto_imf = X - next_imf\n        layer += 1", 'breaking', ['C01'], 'C01.R1')
add('c01-resid-axis0', S, "        proto_imf = X - imf.sum(axis=1)[:, None]\n        layer += 1",
    "        proto_imf = X - imf.sum(axis=0)[:, None]\n        layer += 1", 'breaking', ['C01'], 'C01.R1')
add('c01-resid-incremental-benign', S, "        proto_imf = X - imf.sum(axis=1)[:, None]\n        layer += 1",
    "        proto_imf = proto_imf - next_imf\n        layer += 1", 'benign', ['C01', 'C03'])
add('c01-extra-exit', S, "        if np.abs(next_imf).sum() < sift_thresh:\n            logger.info('Finishing sift: reached threshold {0}'.format(np.abs(next_imf).sum()))",
    "        if layer > 20:\n            continue_sift = False\n\n        if np.abs(next_imf).sum() < sift_thresh:\n            logger.info('Finishing sift: reached threshold {0}'.format(np.abs(next_imf).sum()))",
    'breaking', ['C01'], 'C01.R3')
add('c01-thresh-on-resid', S, "        if np.abs(next_imf).sum() < sift_thresh:\n            logger.info('Finishing sift: reached threshold {0}'.format(np.abs(next_imf).sum()))",
    "        if np.abs(proto_imf).sum() < sift_thresh:\n            logger.info('Finishing sift: reached threshold {0}'.format(np.abs(next_imf).sum()))",
    'breaking', ['C01'], 'C01.R3')
add('c01-none-size2', S, "    if (len(max_locs) == 0) or (max_locs.size <= 1):", "    if (len(max_locs) == 0) or (max_locs.size <= 2):",
    'breaking', ['C01'], 'C01.R4')
add('c01-none-lt1', S, "    if (len(max_locs) == 0) or (max_locs.size <= 1):", "    if (len(max_locs) == 0) or (max_locs.size < 1):",
    'breaking', ['C01'], 'C01.R4')
add('c01-none-equiv-benign', S, "    if (len(max_locs) == 0) or (max_locs.size <= 1):", "    if max_locs.size < 2:",
    'benign', ['C01', 'C04'])
add('c04-half-missing', S, "        avg = np.mean([upper, lower], axis=0)[:, None]\n\n        # Remove local mean estimate from proto imf",
    "        avg = np.sum([upper, lower], axis=0)[:, None]\n\n        # Remove local mean estimate from proto imf", 'breaking', ['C04'], 'C04.R1')
add('c04-mean-form-benign', S, "        avg = np.mean([upper, lower], axis=0)[:, None]\n\n        # Remove local mean estimate from proto imf",
    "        avg = ((upper + lower) / 2)[:, None]\n\n        # Remove local mean estimate from proto imf", 'benign', ['C04', 'C01'])
add('c04-step-on-return', S, "            proto_imf = x1.copy()\n            continue_imf = False",
    "            proto_imf = proto_imf - env_step_size*avg\n            continue_imf = False", 'breaking', ['C04'], 'C04.R1')
add('c04-return-unsifted', S, "            proto_imf = x1.copy()\n            continue_imf = False",
    "            continue_imf = False", 'breaking', ['C04'], 'C04.R1')
add('c04-no-step', S, "        proto_imf = proto_imf - (env_step_size*avg)", "        proto_imf = proto_imf - avg", 'breaking', ['C04'], 'C04.R1')
add('c04-swap-sd-args', S, "stop, _ = sd_stop(proto_imf, x1, sd=sd_thresh, niters=niters)",
    "stop, _ = sd_stop(x1, proto_imf, sd=sd_thresh, niters=niters)", 'breaking', ['C04'], 'C04.R2')
add('c04-swap-rilling', S, "sd1=rilling_thresh[0],\n                                   sd2=rilling_thresh[1],",
    "sd1=rilling_thresh[1],\n                                   sd2=rilling_thresh[0],", 'breaking', ['C04'], 'C04.R2')
add('c04-sd-flip', S, "    stop = metric < sd\n", "    stop = metric > sd\n", 'breaking', ['C04'], 'C04.R3')
add('c04-sd-denominator', S, "np.sum((proto_imf - prev_imf)**2) / np.sum(proto_imf**2)", "np.sum((proto_imf - prev_imf)**2) / np.sum(prev_imf**2)",
    'breaking', ['C04'], 'C04.R3')
add('c04-rilling-all', S, "    continue2 = np.any(eval_metric > sd2)", "    continue2 = np.all(eval_metric > sd2)", 'breaking', ['C04'], 'C04.R3')
add('c04-rilling-and', S, "    stop = (continue1 or continue2) == False  # noqa: E712", "    stop = (continue1 and continue2) == False  # noqa: E712",
    'breaking', ['C04'], 'C04.R3')
add('c04-rilling-not-benign', S, "    stop = (continue1 or continue2) == False  # noqa: E712", "    stop = not (continue1 or continue2)",
    'benign', ['C04'])
add('c04-fixed-offbyone', S, "    stop = bool(niters == max_iters)", "    stop = bool(niters == max_iters - 1)", 'breaking', ['C04'], 'C04.R3')
add('c04-no-raise', S, "                raise EMDSiftCovergeError(msg)", "                logger.warning(msg)", 'breaking', ['C04'], 'C04.R4')
add('c04-counter-conditional', S, "        niters += 1\n\n        upper = interp_envelope(proto_imf, mode='upper',",
    "        if stop_method != 'sd':\n            niters += 1\n\n        upper = interp_envelope(proto_imf, mode='upper',", 'breaking', ['C04'], 'C04.R4')
add('c04-early-break', S, "        # Find local mean\n        avg = np.mean([upper, lower], axis=0)[:, None]\n\n        # Remove local mean estimate from proto imf",
    "        if niters > 50:\n            break\n        # Find local mean\n        avg = np.mean([upper, lower], axis=0)[:, None]\n\n        # Remove local mean estimate from proto imf",
    'breaking', ['C04'], 'C04.R4')
add('c04-energy-operand', S, "        energy_db = _energy_difference(X, X-proto_imf)", "        energy_db = _energy_difference(proto_imf, X-proto_imf)",
    'breaking', ['C04'], 'C04.R6')
add('c04-energy-flip', S, "        if energy_db > energy_thresh:", "        if energy_db < energy_thresh:", 'breaking', ['C04'], 'C04.R6')
add('c04-lower-from-stale', S, "        lower = interp_envelope(proto_imf, mode='lower',\n                                **envelope_opts, extrema_opts=extrema_opts)\n\n        # If upper",
    "        lower = interp_envelope(X, mode='lower',\n                                **envelope_opts, extrema_opts=extrema_opts)\n\n        # If upper", 'breaking', ['C04'], 'C04.R1')

CY = 'emd/cycles.py'
CS = 'emd/_cycles_support.py'
SP = 'emd/spectra.py'
SU = 'emd/support.py'
LG = 'emd/logger.py'
UT = 'emd/utils.py'

# ---------------------------------------------------------------- C07
add('c07-mask-added-back', S, "    imfs = np.concatenate(imfs, axis=1) - m\n", "    imfs = np.concatenate(imfs, axis=1) + m\n", 'breaking', ['C07'], 'C07.R1')
add('c07-phase-endpoint', S, "    phases = np.linspace(0, (2*np.pi), nphases+1)[:nphases]", "    phases = np.linspace(0, (2*np.pi), nphases)",
    'breaking', ['C07'], 'C07.R2')
add('c07-phase-endpoint-false-benign', S, "    phases = np.linspace(0, (2*np.pi), nphases+1)[:nphases]",
    "    phases = np.linspace(0, (2*np.pi), nphases, endpoint=False)", 'benign', ['C07'])
add('c07-unordered', S, "        res = p.starmap(my_get_next_imf, args)", "        res = list(p.imap_unordered(my_get_next_imf, [a[0] for a in args]))",
    'breaking', ['C07'], 'C07')
add('c07-ladder-exponent', S, "mask_freqs = np.array([z/mask_step_factor**ii for ii in range(max_imfs)])",
    "mask_freqs = np.array([z/mask_step_factor**(ii+1) for ii in range(max_imfs)])", 'breaking', ['C07'], 'C07.R2')
add('c07-ladder-linear', S, "mask_freqs = np.array([z/mask_step_factor**ii for ii in range(max_imfs)])",
    "mask_freqs = np.array([z/(mask_step_factor*(ii+1)) for ii in range(max_imfs)])", 'breaking', ['C07'], 'C07.R2')
add('c07-ratio-imf-uses-input', S, "            sd = imf[:, -1].std()", "            sd = X.std()", 'breaking', ['C07'], 'C07.R4')
add('c07-abs-uses-std', S, "    elif mask_amp_mode == 'abs':\n        sd = 1", "    elif mask_amp_mode == 'abs':\n        sd = X.std()", 'breaking', ['C07'], 'C07.R4')
add('c07-mean-before-remove', S, "    return imfs.mean(axis=1)[:, np.newaxis], np.any(continue_flags)",
    "    return imfs.sum(axis=1)[:, np.newaxis], np.any(continue_flags)", 'breaking', ['C07'], 'C07.R1')
add('c07-flag-all', S, "    return imfs.mean(axis=1)[:, np.newaxis], np.any(continue_flags)",
    "    return imfs.mean(axis=1)[:, np.newaxis], np.all(continue_flags)", 'breaking', ['C07'], 'C07.R1')
add('c07-mask-time-offset', S, "    t = np.repeat(np.arange(X.shape[0])[:, np.newaxis], nphases, axis=1)",
    "    t = np.repeat(np.arange(1, X.shape[0]+1)[:, np.newaxis], nphases, axis=1)", 'breaking', ['C07'], 'C07.R1')
add('c07-wrong-layer-freq', S, "next_imf, continue_sift = get_next_imf_mask(proto_imf, mask_freqs[imf_layer], amp,",
    "next_imf, continue_sift = get_next_imf_mask(proto_imf, mask_freqs[0], amp,", 'breaking', ['C07'], 'C07.R2')

# ---------------------------------------------------------------- C15
add('c15-swap-ufuncs', CY, "        elif comp[:2] == '<=':\n            func = np.less_equal", "        elif comp[:2] == '<=':\n            func = np.less",
    'breaking', ['C15'], 'C15.R1')
add('c15-onechar-first', CY, "        if comp[:2] == '==':\n            func = np.equal\n        elif comp[:2] == '!=':",
    "        if comp[0] == '<':\n            func = np.less\n        elif comp[:2] == '==':\n            func = np.equal\n        elif comp[:2] == '!=':",
    'breaking', ['C15'], 'C15.R1')
add('c15-lstrip-minus', CY, "        val = float(comp.lstrip('!=<>'))", "        val = float(comp.lstrip('!=<>-'))", 'breaking', ['C15'], 'C15.R1')
add('c15-any-conditions', CY, "            return np.all(out, axis=1)", "            return np.any(out, axis=1)", 'breaking', ['C15'], 'C15.R2')
add('c15-args-swapped', CY, "            out[:, idx] = func(self.metrics[name], val)", "            out[:, idx] = func(val, self.metrics[name])",
    'breaking', ['C15'], 'C15.R2')
add('c15-chain-gap-ge1', CY, "        elif dchain_inds[ii] > 1:", "        elif dchain_inds[ii] >= 1:", 'breaking', ['C15'], 'C15.R3')
add('c15-chain-first-zero', CY, "    dchain_inds = np.r_[1, np.diff(chain_inds)]", "    dchain_inds = np.r_[2, np.diff(chain_inds)]", 'breaking', ['C15'], 'C15.R3')
add('c15-subset-zero-fill', CY, "        if valids[ii] == 0:\n            subset_vect[ii] = -1", "        if valids[ii] == 0:\n            subset_vect[ii] = 0",
    'breaking', ['C15'], 'C15.R3')
add('c15-unsafe-store', CY, "    def _safe_add_metric(self, name, vals):\n        if len(vals) != self.ncycles:\n            raise ValueError\n",
    "    def _safe_add_metric(self, name, vals):\n", 'breaking', ['C15'], 'C15.R4')
add('c15-cache-good-only', CY, "        self.cycle_vect = get_cycle_vector(self.phase, return_good=False,", "        self.cycle_vect = get_cycle_vector(self.phase, return_good=True,",
    'breaking', ['C15'], 'C15.R5')
add('c15-cache-stop', CS, "    stops = np.r_[stops, len(cycle_vect)]", "    stops = np.r_[stops, len(cycle_vect) - 1]", 'breaking', ['C15'], 'C15.R5')

# ---------------------------------------------------------------- C02
add('c02-sd-no-denominator', S, "    metric = np.sum((proto_imf - prev_imf)**2) / np.sum(proto_imf**2)", "    metric = np.sum((proto_imf - prev_imf)**2)",
    'breaking', ['C02', 'C04'], 'C02.R1')
add('c02-rilling-unnormalised', S, "    eval_metric = np.abs(avg_env)/amp", "    eval_metric = np.abs(avg_env)", 'breaking', ['C02', 'C04'], 'C02.R1')
add('c02-mask-amp-unscaled', S, "    elif mask_amp_mode == 'ratio_sig':\n        sd = X.std()", "    elif mask_amp_mode == 'ratio_sig':\n        sd = 1",
    'breaking', ['C02', 'C07'], 'C02.R1')
add('c02-envelope-vs-constant', S, "        if upper is None or lower is None:\n            if niters == 1:",
    "        if upper is not None and np.max(upper) < 1e-3:\n            upper = None\n        if upper is None or lower is None:\n            if niters == 1:",
    'breaking', ['C02'], 'C02.R1')
add('c02-trough-not-renegated', S, "        max_locs, max_ext = _find_extrema(-X, parabolic_extrema=parabolic_extrema)\n        max_ext = -max_ext",
    "        max_locs, max_ext = _find_extrema(-X, parabolic_extrema=parabolic_extrema)", 'breaking', ['C02', 'C05'], 'R2')
add('c02-one-sided-pad', S, "    ret_max_locs = np.pad(max_locs, pad_width, loc_pad_mode, **loc_pad_opts)\n\n    # Pad peak magnitudes\n    ret_max_ext = np.pad(max_ext, pad_width, mag_pad_mode, **mag_pad_opts)",
    "    ret_max_locs = np.pad(max_locs, (pad_width, 0), loc_pad_mode, **loc_pad_opts)\n\n    # Pad peak magnitudes\n    ret_max_ext = np.pad(max_ext, (pad_width, 0), mag_pad_mode, **mag_pad_opts)",
    'breaking', ['C02'], 'C02.R3')
add('c02-rilling-abs-lost', S, "    amp = np.abs(upper_env-lower_env)/2", "    amp = (upper_env-lower_env)/2", 'breaking', ['C02', 'C04'], 'R')
add('c02-greater-equal', S, "    ext_locs = signal.argrelextrema(X, np.greater, order=1)[0]", "    ext_locs = signal.argrelextrema(X, np.greater_equal, order=1)[0]",
    'breaking', ['C02', 'C05'], 'R')
add('c02-energy-unbalanced', S, "    return imf_energy-resid_energy", "    return imf_energy-2*resid_energy", 'breaking', ['C02', 'C04'], 'R')
add('c02-scale-free-refactor-benign', S, "    metric = np.sum((proto_imf - prev_imf)**2) / np.sum(proto_imf**2)",
    "    num = np.sum(np.square(proto_imf - prev_imf))\n    metric = num / np.sum(np.square(proto_imf))", 'benign', ['C02', 'C04'])

# ---------------------------------------------------------------- C09
add('c09-missing-sample-rate', SP, "    ifrequency = iphase / (2.0 * np.pi) * sample_rate", "    ifrequency = iphase / (2.0 * np.pi)", 'breaking', ['C09'], 'C09.R2')
add('c09-times-2pi', SP, "    ifrequency = iphase / (2.0 * np.pi) * sample_rate", "    ifrequency = iphase * (2.0 * np.pi) * sample_rate", 'breaking', ['C09'], 'C09.R2')
add('c09-wrap-before-diff', SP, "    ifreq = freq_from_phase(iphase, sample_rate)\n\n    # Return wrapped phase\n    iphase = utils.wrap_phase(iphase)",
    "    iphase = utils.wrap_phase(iphase)\n    ifreq = freq_from_phase(iphase, sample_rate)", 'breaking', ['C09'], 'C09.R2')
add('c09-wrap-range', UT, "        phases = (IP) % (ncycles * 2 * np.pi)", "        phases = (IP) % (ncycles * np.pi)", 'breaking', ['C09'], 'C09.R1')
add('c09-no-wrap', SP, "    # Return wrapped phase\n    iphase = utils.wrap_phase(iphase)\n", "", 'breaking', ['C09'], 'C09.R1')
add('c09-phase-from-freq-coeff', SP, "    iphase_diff = (ifrequency / sample_rate) * (2 * np.pi)", "    iphase_diff = (ifrequency / sample_rate) * np.pi", 'breaking', ['C09'], 'C09.R2')
add('c09-amp-normalised', SP, "        analytic_signal = signal.hilbert(imf, axis=0)\n\n        # Estimate instantaneous amplitudes directly from analytic signal\n        iamp = np.abs(analytic_signal)",
    "        analytic_signal = signal.hilbert(imf, axis=0)\n\n        # Estimate instantaneous amplitudes directly from analytic signal\n        iamp = np.abs(analytic_signal) / np.abs(analytic_signal).max()",
    'breaking', ['C09'], 'C09.R3')
add('c09-normalise-by-other-column', UT, "                X[:, iimf, jimf] = X[:, iimf, jimf] / env\n", "                X[:, iimf, jimf] = X[:, 0, jimf] / env\n", 'breaking', ['C09'], 'C09.R3')
add('c09-method-fallthrough', SP, "    elif method == 'quad':\n        logger.info('Using Quadrature transform')\n\n        analytic_signal = quadrature_transform(imf)\n",
    "    elif method == 'quad':\n        logger.info('Using Quadrature transform')\n", 'breaking', ['C09'], 'C09.R4')
