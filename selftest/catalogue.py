"""Catalogue of edits used to validate the checker in both directions.

Each entry: id, file, old (unique text in the current tree), new, kind ('breaking' | 'benign'),
props (checks to run; for breaking edits at least one must exit 1), optional expect (substring
that must appear in the report, usually the rule id).
"""
S = 'emd/sift.py'
CATALOGUE = []


def add(id, file, old, new, kind, props, expect=None):
    CATALOGUE.append(dict(id=id, file=file, old=old, new=new, kind=kind, props=props, expect=expect))


# ---------------------------------------------------------------- C01 / C04 core
add('c01-late-flag', S, "            if niters == 1:\n                # Only the unmodified input can be flagged as the final residual\n                continue_flag = False\n",
    "            continue_flag = False\n", 'breaking', ['C01', 'C04'], 'R2')
add('c01-resid-from-next', S, "        proto_imf = X - imf.sum(axis=1)[:, None]\n        layer += 1",
    "        proto_imf = X - next_imf\n        layer += 1", 'breaking', ['C01'], 'C01.R1')
add('c01-resid-axis0', S, "        proto_imf = X - imf.sum(axis=1)[:, None]\n        layer += 1",
    "        proto_imf = X - imf.sum(axis=0)[:, None]\n        layer += 1", 'breaking', ['C01'], 'C01.R1')
add('c01-resid-incremental-benign', S, "        proto_imf = X - imf.sum(axis=1)[:, None]\n        layer += 1",
    "        proto_imf = proto_imf - next_imf\n        layer += 1", 'benign', ['C01', 'C03'])
add('c01-extra-exit', S, "        if np.abs(next_imf).sum() < sift_thresh:\n            logger.info('Finishing sift: reached threshold {0}'.format(np.abs(next_imf).sum()))",
    "        if layer > 20:\n            continue_sift = False\n\n        if np.abs(next_imf).sum() < sift_thresh:\n            logger.info('Finishing sift: reached threshold {0}'.format(np.abs(next_imf).sum()))",
    'breaking', ['C01'], 'C01.R3')
add('c01-thresh-on-resid', S, "        if np.abs(next_imf).sum() < sift_thresh:\n            logger.info('Finishing sift: reached threshold {0}'.format(np.abs(next_imf).sum()))",
    "        if np.abs(proto_imf).sum() < sift_thresh:\n            logger.info('Finishing sift: reached threshold {0}'.format(np.abs(next_imf).sum()))",
    'breaking', ['C01'], 'C01.R3')
add('c01-none-size2', S, "    if (len(max_locs) == 0) or (max_locs.size <= 1):", "    if (len(max_locs) == 0) or (max_locs.size <= 2):",
    'breaking', ['C01'], 'C01.R4')
add('c01-none-lt1', S, "    if (len(max_locs) == 0) or (max_locs.size <= 1):", "    if (len(max_locs) == 0) or (max_locs.size < 1):",
    'breaking', ['C01'], 'C01.R4')
add('c01-none-equiv-benign', S, "    if (len(max_locs) == 0) or (max_locs.size <= 1):", "    if max_locs.size < 2:",
    'benign', ['C01', 'C04'])
add('c04-half-missing', S, "        avg = np.mean([upper, lower], axis=0)[:, None]\n\n        # Remove local mean estimate from proto imf",
    "        avg = np.sum([upper, lower], axis=0)[:, None]\n\n        # Remove local mean estimate from proto imf", 'breaking', ['C04'], 'C04.R1')
add('c04-mean-form-benign', S, "        avg = np.mean([upper, lower], axis=0)[:, None]\n\n        # Remove local mean estimate from proto imf",
    "        avg = ((upper + lower) / 2)[:, None]\n\n        # Remove local mean estimate from proto imf", 'benign', ['C04', 'C01'])
add('c04-step-on-return', S, "            proto_imf = x1.copy()\n            continue_imf = False",
    "            proto_imf = proto_imf - env_step_size*avg\n            continue_imf = False", 'breaking', ['C04'], 'C04.R1')
add('c04-return-unsifted', S, "            proto_imf = x1.copy()\n            continue_imf = False",
    "            continue_imf = False", 'breaking', ['C04'], 'C04.R1')
add('c04-no-step', S, "        proto_imf = proto_imf - (env_step_size*avg)", "        proto_imf = proto_imf - avg", 'breaking', ['C04'], 'C04.R1')
add('c04-swap-sd-args', S, "stop, _ = sd_stop(proto_imf, x1, sd=sd_thresh, niters=niters)",
    "stop, _ = sd_stop(x1, proto_imf, sd=sd_thresh, niters=niters)", 'breaking', ['C04'], 'C04.R2')
add('c04-swap-rilling', S, "sd1=rilling_thresh[0],\n                                   sd2=rilling_thresh[1],",
    "sd1=rilling_thresh[1],\n                                   sd2=rilling_thresh[0],", 'breaking', ['C04'], 'C04.R2')
add('c04-sd-flip', S, "    stop = metric < sd\n", "    stop = metric > sd\n", 'breaking', ['C04'], 'C04.R3')
add('c04-sd-denominator', S, "np.sum((proto_imf - prev_imf)**2) / np.sum(proto_imf**2)", "np.sum((proto_imf - prev_imf)**2) / np.sum(prev_imf**2)",
    'breaking', ['C04'], 'C04.R3')
add('c04-rilling-all', S, "    continue2 = np.any(eval_metric > sd2)", "    continue2 = np.all(eval_metric > sd2)", 'breaking', ['C04'], 'C04.R3')
add('c04-rilling-and', S, "    stop = (continue1 or continue2) == False  # noqa: E712", "    stop = (continue1 and continue2) == False  # noqa: E712",
    'breaking', ['C04'], 'C04.R3')
add('c04-rilling-not-benign', S, "    stop = (continue1 or continue2) == False  # noqa: E712", "    stop = not (continue1 or continue2)",
    'benign', ['C04'])
add('c04-fixed-offbyone', S, "    stop = bool(niters == max_iters)", "    stop = bool(niters == max_iters - 1)", 'breaking', ['C04'], 'C04.R3')
add('c04-no-raise', S, "                raise EMDSiftCovergeError(msg)", "                logger.warning(msg)", 'breaking', ['C04'], 'C04.R4')
add('c04-counter-conditional', S, "        niters += 1\n\n        upper = interp_envelope(proto_imf, mode='upper',",
    "        if stop_method != 'sd':\n            niters += 1\n\n        upper = interp_envelope(proto_imf, mode='upper',", 'breaking', ['C04'], 'C04.R4')
add('c04-early-break', S, "        # Find local mean\n        avg = np.mean([upper, lower], axis=0)[:, None]\n\n        # Remove local mean estimate from proto imf",
    "        if niters > 50:\n            break\n        # Find local mean\n        avg = np.mean([upper, lower], axis=0)[:, None]\n\n        # Remove local mean estimate from proto imf",
    'breaking', ['C04'], 'C04.R4')
add('c04-energy-operand', S, "        energy_db = _energy_difference(X, X-proto_imf)", "        energy_db = _energy_difference(proto_imf, X-proto_imf)",
    'breaking', ['C04'], 'C04.R6')
add('c04-energy-flip', S, "        if energy_db > energy_thresh:", "        if energy_db < energy_thresh:", 'breaking', ['C04'], 'C04.R6')
add('c04-lower-from-stale', S, "        lower = interp_envelope(proto_imf, mode='lower',\n                                **envelope_opts, extrema_opts=extrema_opts)\n\n        # If upper",
    "        lower = interp_envelope(X, mode='lower',\n                                **envelope_opts, extrema_opts=extrema_opts)\n\n        # If upper", 'breaking', ['C04'], 'C04.R1')

CY = 'emd/cycles.py'
CS = 'emd/_cycles_support.py'
SP = 'emd/spectra.py'
SU = 'emd/support.py'
LG = 'emd/logger.py'
UT = 'emd/utils.py'

# ---------------------------------------------------------------- C07
add('c07-mask-added-back', S, "    imfs = np.concatenate(imfs, axis=1) - m\n", "    imfs = np.concatenate(imfs, axis=1) + m\n", 'breaking', ['C07'], 'C07.R1')
add('c07-phase-endpoint', S, "    phases = np.linspace(0, (2*np.pi), nphases+1)[:nphases]", "    phases = np.linspace(0, (2*np.pi), nphases)",
    'breaking', ['C07'], 'C07.R2')
add('c07-phase-endpoint-false-benign', S, "    phases = np.linspace(0, (2*np.pi), nphases+1)[:nphases]",
    "    phases = np.linspace(0, (2*np.pi), nphases, endpoint=False)", 'benign', ['C07'])
add('c07-unordered-benign', S, "        res = p.starmap(my_get_next_imf, args)", "        res = list(p.imap_unordered(my_get_next_imf, [a[0] for a in args]))",
    'benign', ['C07'])
add('c07-ladder-exponent', S, "mask_freqs = np.array([z/mask_step_factor**ii for ii in range(max_imfs)])",
    "mask_freqs = np.array([z/mask_step_factor**(ii+1) for ii in range(max_imfs)])", 'breaking', ['C07'], 'C07.R2')
add('c07-ladder-linear', S, "mask_freqs = np.array([z/mask_step_factor**ii for ii in range(max_imfs)])",
    "mask_freqs = np.array([z/(mask_step_factor*(ii+1)) for ii in range(max_imfs)])", 'breaking', ['C07'], 'C07.R2')
add('c07-ratio-imf-uses-input', S, "            sd = imf[:, -1].std()", "            sd = X.std()", 'breaking', ['C07'], 'C07.R4')
add('c07-abs-uses-std', S, "    elif mask_amp_mode == 'abs':\n        sd = 1", "    elif mask_amp_mode == 'abs':\n        sd = X.std()", 'breaking', ['C07'], 'C07.R4')
add('c07-mean-before-remove', S, "    return imfs.mean(axis=1)[:, np.newaxis], np.any(continue_flags)",
    "    return imfs.sum(axis=1)[:, np.newaxis], np.any(continue_flags)", 'breaking', ['C07'], 'C07.R1')
add('c07-flag-all', S, "    return imfs.mean(axis=1)[:, np.newaxis], np.any(continue_flags)",
    "    return imfs.mean(axis=1)[:, np.newaxis], np.all(continue_flags)", 'benign', ['C07'])   # which symmetric reduction ends a masked sift is not part of C07
add('c07-mask-time-offset', S, "    t = np.repeat(np.arange(X.shape[0])[:, np.newaxis], nphases, axis=1)",
    "    t = np.repeat(np.arange(1, X.shape[0]+1)[:, np.newaxis], nphases, axis=1)", 'breaking', ['C07'], 'C07.R1')
add('c07-wrong-layer-freq', S, "next_imf, continue_sift = get_next_imf_mask(proto_imf, mask_freqs[imf_layer], amp,",
    "next_imf, continue_sift = get_next_imf_mask(proto_imf, mask_freqs[0], amp,", 'breaking', ['C07'], 'C07.R2')

# ---------------------------------------------------------------- C15
add('c15-swap-ufuncs', CY, "        elif comp[:2] == '<=':\n            func = np.less_equal", "        elif comp[:2] == '<=':\n            func = np.less",
    'breaking', ['C15'], 'C15.R1')
add('c15-onechar-first', CY, "        if comp[:2] == '==':\n            func = np.equal\n        elif comp[:2] == '!=':",
    "        if comp[0] == '<':\n            func = np.less\n        elif comp[:2] == '==':\n            func = np.equal\n        elif comp[:2] == '!=':",
    'breaking', ['C15'], 'C15.R1')
add('c15-lstrip-minus', CY, "        val = float(comp.lstrip('!=<>'))", "        val = float(comp.lstrip('!=<>-'))", 'breaking', ['C15'], 'C15.R1')
add('c15-any-conditions', CY, "            return np.all(out, axis=1)", "            return np.any(out, axis=1)", 'breaking', ['C15'], 'C15.R2')
add('c15-args-swapped', CY, "            out[:, idx] = func(self.metrics[name], val)", "            out[:, idx] = func(val, self.metrics[name])",
    'breaking', ['C15'], 'C15.R2')
add('c15-chain-gap-ge1', CY, "        elif dchain_inds[ii] > 1:", "        elif dchain_inds[ii] >= 1:", 'benign', ['C15'])   # equivalent: the gap == 1 case is taken by the branch before
add('c15-chain-gap-ge3', CY, "        elif dchain_inds[ii] > 1:", "        elif dchain_inds[ii] > 2:", 'breaking', ['C15'], 'C15.R3')
add('c15-chain-first-zero', CY, "    dchain_inds = np.r_[1, np.diff(chain_inds)]", "    dchain_inds = np.r_[2, np.diff(chain_inds)]", 'breaking', ['C15'], 'C15.R3')
add('c15-subset-zero-fill', CY, "        if valids[ii] == 0:\n            subset_vect[ii] = -1", "        if valids[ii] == 0:\n            subset_vect[ii] = 0",
    'breaking', ['C15'], 'C15.R3')
add('c15-unsafe-store', CY, "    def _safe_add_metric(self, name, vals):\n        if len(vals) != self.ncycles:\n            raise ValueError\n",
    "    def _safe_add_metric(self, name, vals):\n", 'breaking', ['C15'], 'C15.R4')
add('c15-cache-good-only', CY, "        self.cycle_vect = get_cycle_vector(self.phase, return_good=False,", "        self.cycle_vect = get_cycle_vector(self.phase, return_good=True,",
    'breaking', ['C15'], 'C15.R5')
add('c15-cache-stop', CS, "    stops = np.r_[stops, len(cycle_vect)]", "    stops = np.r_[stops, len(cycle_vect) - 1]", 'breaking', ['C15'], 'C15.R5')

# ---------------------------------------------------------------- C02
add('c02-sd-no-denominator', S, "    metric = np.sum((proto_imf - prev_imf)**2) / np.sum(proto_imf**2)", "    metric = np.sum((proto_imf - prev_imf)**2)",
    'breaking', ['C02', 'C04'], 'C02.R1')
add('c02-rilling-unnormalised', S, "    eval_metric = np.abs(avg_env)/amp", "    eval_metric = np.abs(avg_env)", 'breaking', ['C02', 'C04'], 'C02.R1')
add('c02-mask-amp-unscaled', S, "    elif mask_amp_mode == 'ratio_sig':\n        sd = X.std()", "    elif mask_amp_mode == 'ratio_sig':\n        sd = 1",
    'breaking', ['C02', 'C07'], 'C02.R1')
add('c02-envelope-vs-constant', S, "        if upper is None or lower is None:\n            if niters == 1:",
    "        if upper is not None and np.max(upper) < 1e-3:\n            upper = None\n        if upper is None or lower is None:\n            if niters == 1:",
    'breaking', ['C02'], 'C02.R1')
add('c02-trough-not-renegated', S, "        max_locs, max_ext = _find_extrema(-X, parabolic_extrema=parabolic_extrema)\n        max_ext = -max_ext",
    "        max_locs, max_ext = _find_extrema(-X, parabolic_extrema=parabolic_extrema)", 'breaking', ['C02', 'C05'], 'R2')
add('c02-one-sided-pad', S, "    ret_max_locs = np.pad(max_locs, pad_width, loc_pad_mode, **loc_pad_opts)\n\n    # Pad peak magnitudes\n    ret_max_ext = np.pad(max_ext, pad_width, mag_pad_mode, **mag_pad_opts)",
    "    ret_max_locs = np.pad(max_locs, (pad_width, 0), loc_pad_mode, **loc_pad_opts)\n\n    # Pad peak magnitudes\n    ret_max_ext = np.pad(max_ext, (pad_width, 0), mag_pad_mode, **mag_pad_opts)",
    'breaking', ['C02'], 'C02.R3')
add('c02-rilling-abs-lost', S, "    amp = np.abs(upper_env-lower_env)/2", "    amp = (upper_env-lower_env)/2", 'breaking', ['C04'], 'C04.R3')
add('c02-greater-equal', S, "    ext_locs = signal.argrelextrema(X, np.greater, order=1)[0]", "    ext_locs = signal.argrelextrema(X, np.greater_equal, order=1)[0]",
    'breaking', ['C02', 'C05'], 'R')
add('c02-energy-unbalanced', S, "    return imf_energy-resid_energy", "    return imf_energy-2*resid_energy", 'breaking', ['C02', 'C04'], 'R')
add('c02-scale-free-refactor-benign', S, "    metric = np.sum((proto_imf - prev_imf)**2) / np.sum(proto_imf**2)",
    "    num = np.sum(np.square(proto_imf - prev_imf))\n    metric = num / np.sum(np.square(proto_imf))", 'benign', ['C02', 'C04'])

# ---------------------------------------------------------------- C09
add('c09-missing-sample-rate', SP, "    ifrequency = iphase / (2.0 * np.pi) * sample_rate", "    ifrequency = iphase / (2.0 * np.pi)", 'breaking', ['C09'], 'C09.R2')
add('c09-times-2pi', SP, "    ifrequency = iphase / (2.0 * np.pi) * sample_rate", "    ifrequency = iphase * (2.0 * np.pi) * sample_rate", 'breaking', ['C09'], 'C09.R2')
add('c09-wrap-before-diff', SP, "    ifreq = freq_from_phase(iphase, sample_rate)\n\n    # Return wrapped phase\n    iphase = utils.wrap_phase(iphase)",
    "    iphase = utils.wrap_phase(iphase)\n    ifreq = freq_from_phase(iphase, sample_rate)", 'breaking', ['C09'], 'C09.R2')
add('c09-wrap-range', UT, "        phases = (IP) % (ncycles * 2 * np.pi)", "        phases = (IP) % (ncycles * np.pi)", 'breaking', ['C09'], 'C09.R1')
add('c09-no-wrap', SP, "    # Return wrapped phase\n    iphase = utils.wrap_phase(iphase)\n", "", 'breaking', ['C09'], 'C09.R1')
add('c09-phase-from-freq-coeff', SP, "    iphase_diff = (ifrequency / sample_rate) * (2 * np.pi)", "    iphase_diff = (ifrequency / sample_rate) * np.pi", 'breaking', ['C09'], 'C09.R2')
add('c09-amp-normalised', SP, "        analytic_signal = signal.hilbert(imf, axis=0)\n\n        # Estimate instantaneous amplitudes directly from analytic signal\n        iamp = np.abs(analytic_signal)",
    "        analytic_signal = signal.hilbert(imf, axis=0)\n\n        # Estimate instantaneous amplitudes directly from analytic signal\n        iamp = np.abs(analytic_signal) / np.abs(analytic_signal).max()",
    'breaking', ['C09'], 'C09.R3')
add('c09-normalise-by-other-column', UT, "                X[:, iimf, jimf] = X[:, iimf, jimf] / env\n", "                X[:, iimf, jimf] = X[:, 0, jimf] / env\n", 'breaking', ['C09'], 'C09.R3')
add('c09-method-fallthrough', SP, "    elif method == 'quad':\n        logger.info('Using Quadrature transform')\n\n        analytic_signal = quadrature_transform(imf)\n",
    "    elif method == 'quad':\n        logger.info('Using Quadrature transform')\n", 'breaking', ['C09'], 'C09.R4')

# ---------------------------------------------------------------- C03
add('c03-sift-cap-offbyone', S, "        if max_imfs is not None and layer == max_imfs:\n            logger.info('Finishing sift: reached max number of imfs ({0})'.format(layer))",
    "        if max_imfs is not None and layer == max_imfs + 1:\n            logger.info('Finishing sift: reached max number of imfs ({0})'.format(layer))", 'breaking', ['C03'], 'C03.R3')
add('c03-sift-cap-not-enforced', S, "            logger.info('Finishing sift: reached max number of imfs ({0})'.format(layer))\n            continue_sift = False",
    "            logger.info('Finishing sift: reached max number of imfs ({0})'.format(layer))", 'breaking', ['C03', 'C01'], 'R3')
add('c03-mask-cap-offbyone', S, "        if max_imfs is not None and imf_layer == max_imfs-1:", "        if max_imfs is not None and imf_layer == max_imfs:", 'breaking', ['C03'], 'C03.R3')
add('c03-ceemd-cap-before-increment', S, "        imf = np.concatenate((imf, next_imf), axis=1)\n        layer += 1\n\n        args = [(noise[:, ii, None], sift_thresh, 1, None, imf_opts, envelope_opts, extrema_opts)",
    "        imf = np.concatenate((imf, next_imf), axis=1)\n\n        args = [(noise[:, ii, None], sift_thresh, 1, None, imf_opts, envelope_opts, extrema_opts)", 'breaking', ['C03'], 'C03.R3')
add('c03-ceemd-no-entry-guard', S, "    layer += 1\n    if max_imfs is not None and layer == max_imfs:\n        continue_sift = False\n\n    while continue_sift:",
    "    layer += 1\n\n    while continue_sift:", 'breaking', ['C03'], 'C03.R3')
add('c03-cap-as-value', S, "        next_imf, continue_sift = get_next_imf(proto_imf,\n                                               envelope_opts=envelope_opts,",
    "        next_imf, continue_sift = get_next_imf(proto_imf, max_iters=max_imfs,\n                                               envelope_opts=envelope_opts,", 'breaking', ['C03'], 'C03.R2')
add('c03-mask-resid-from-proto', S, "        proto_imf = X - imf.sum(axis=1)[:, None]\n\n        if max_imfs is not None and imf_layer == max_imfs-1:",
    "        proto_imf = X - next_imf\n\n        if max_imfs is not None and imf_layer == max_imfs-1:", 'breaking', ['C03'], 'C03.R1')
add('c03-ceemd-resid', S, "    while continue_sift:\n\n        proto_imf = X - imf.sum(axis=1)[:, None]\n\n        args = [(proto_imf, None, noise[:, ii, None], noise_mode, sift_thresh,",
    "    while continue_sift:\n\n        proto_imf = X - imf[:, -1, None]\n\n        args = [(proto_imf, None, noise[:, ii, None], noise_mode, sift_thresh,", 'breaking', ['C03'], 'C03.R1')
add('c03-ensemble-first-member', S, "    nimfs = min(r.shape[1] for r in res)\n    if max_imfs is None or max_imfs > nimfs:\n        max_imfs = nimfs",
    "    if max_imfs is None:\n        max_imfs = res[0].shape[1]", 'breaking', ['C03'], 'C03.R4')
add('c03-second-layer-range', S, "    for ii in range(IA.shape[1]):\n        tmp = sift_func(IA[:, ii], **sift_args)", "    for ii in range(max_imfs):\n        tmp = sift_func(IA[:, ii], **sift_args)",
    'breaking', ['C03'], 'C03.R5')
add('c03-no-ensure', S, "    X = ensure_1d_with_singleton([X], ['X'], 'sift')\n\n    _nsamples_warn(X.shape[0], max_imfs)\n\n    continue_sift = True\n    layer = 0\n\n    proto_imf = X.copy()",
    "    _nsamples_warn(X.shape[0], max_imfs)\n\n    continue_sift = True\n    layer = 0\n\n    proto_imf = X.copy()", 'breaking', ['C03', 'C19'], 'R')
add('c03-layer-rename-benign', S, "    continue_sift = True\n    layer = 0\n\n    proto_imf = X.copy()\n\n    while continue_sift:\n\n        next_imf, continue_sift = get_next_imf(proto_imf,",
    "    continue_sift = True\n    layer = 0\n\n    residual = X.copy()\n    proto_imf = residual\n\n    while continue_sift:\n\n        next_imf, continue_sift = get_next_imf(proto_imf,", 'benign', ['C03', 'C01'])

# ---------------------------------------------------------------- C05
add('c05-order2', S, "    ext_locs = signal.argrelextrema(X, np.greater, order=1)[0]", "    ext_locs = signal.argrelextrema(X, np.greater, order=2)[0]", 'breaking', ['C05'], 'C05.R1')
add('c05-default-prominence', S, "def _find_extrema(X, peak_prom_thresh=None, parabolic_extrema=False):", "def _find_extrema(X, peak_prom_thresh=0.1, parabolic_extrema=False):",
    'breaking', ['C05'], 'C05.R1')
add('c05-grid-shift', S, "    t = np.arange(np.ceil(locs[0]), locs[-1])", "    t = np.arange(np.ceil(locs[0]) + 1, locs[-1] + 1)", 'breaking', ['C05'], 'C05.R4')
add('c05-grid-unrounded', S, "    t = np.arange(np.ceil(locs[0]), locs[-1])", "    t = np.arange(locs[0], locs[-1])", 'breaking', ['C05'], 'C05.R4')
add('c05-mask-offbyone', S, "    tinds = np.logical_and((t_max >= 0), (t_max < X.shape[0]))", "    tinds = np.logical_and((t_max > 0), (t_max <= X.shape[0]))", 'breaking', ['C05'], 'C05.R4')
add('c05-pad-width-mismatch', S, "    ret_max_ext = np.pad(max_ext, pad_width, mag_pad_mode, **mag_pad_opts)\n\n    # Keep padding",
    "    ret_max_ext = np.pad(max_ext, pad_width + 1, mag_pad_mode, **mag_pad_opts)[1:-1]\n\n    # Keep padding", 'breaking', ['C05'], 'C05.R3')
add('c05-exit-test', S, "    while max(ret_max_locs) < len(X) or min(ret_max_locs) >= 0:", "    while max(ret_max_locs) < len(X) - 1 or min(ret_max_locs) >= 0:", 'breaking', ['C05'], 'C05.R3')
add('c05-exit-test-and', S, "    while max(ret_max_locs) < len(X) or min(ret_max_locs) >= 0:", "    while max(ret_max_locs) < len(X) and min(ret_max_locs) >= 0:", 'breaking', ['C05'], 'C05.R3')
add('c05-winv-constant', S, "    w_inv = np.array([[.5, -1, .5], [-5/2, 4, -3/2], [3, -3, 1]])", "    w_inv = np.array([[.5, -1, .5], [-5/2, 4, -3/2], [3, -3, 2]])", 'breaking', ['C05'], 'C05.R6')
add('c05-vertex-offset', S, "    t = tp - 2 + locs", "    t = tp - 1 + locs", 'breaking', ['C05'], 'C05.R6')
add('c05-pchip-from-other', S, "        pchip = interp.PchipInterpolator(locs, pks)\n        env = pchip(t)", "        pchip = interp.PchipInterpolator(locs[1:-1], pks[1:-1])\n        env = pchip(t)", 'breaking', ['C05'], 'C05.R5')
add('c05-lower-uses-peaks', S, "    elif mode == 'lower':\n        locs, pks = get_padded_extrema(X, mode='troughs', **extrema_opts)", "    elif mode == 'lower':\n        locs, pks = get_padded_extrema(-X, mode='peaks', **extrema_opts)",
    'breaking', ['C05'], 'C05.R5')
add('c05-exit-test-benign', S, "    while max(ret_max_locs) < len(X) or min(ret_max_locs) >= 0:", "    while not (max(ret_max_locs) >= len(X) and min(ret_max_locs) < 0):", 'benign', ['C05', 'C02'])

# ---------------------------------------------------------------- C06
add('c06-drop-extrema-in-sift', S, "        next_imf, continue_sift = get_next_imf(proto_imf,\n                                               envelope_opts=envelope_opts,\n                                               extrema_opts=extrema_opts,\n                                               **imf_opts)",
    "        next_imf, continue_sift = get_next_imf(proto_imf,\n                                               envelope_opts=envelope_opts,\n                                               **imf_opts)", 'breaking', ['C06'], 'C06.R1')
add('c06-lower-envelope-no-opts', S, "        lower = interp_envelope(proto_imf, mode='lower',\n                                **envelope_opts, extrema_opts=extrema_opts)\n\n        # If upper",
    "        lower = interp_envelope(proto_imf, mode='lower',\n                                **envelope_opts)\n\n        # If upper", 'breaking', ['C06', 'C04'], 'R1')
add('c06-flip-half-no-opts', S, "        imf += sift(ensX, sift_thresh=sift_thresh, max_imfs=max_imfs,\n                    imf_opts=imf_opts, envelope_opts=envelope_opts, extrema_opts=extrema_opts)",
    "        imf += sift(ensX, sift_thresh=sift_thresh, max_imfs=max_imfs,\n                    imf_opts=imf_opts, envelope_opts=envelope_opts)", 'breaking', ['C06', 'C08'], 'R')
add('c06-tuple-reordered', S, "    args = [(X, noise_scaling, noise[:, ii, None], noise_mode, sift_thresh, max_imfs, ii,\n             imf_opts, envelope_opts, extrema_opts)",
    "    args = [(X, noise_scaling, noise[:, ii, None], noise_mode, sift_thresh, max_imfs, ii,\n             imf_opts, extrema_opts, envelope_opts)", 'breaking', ['C06'], 'C06.R1')
add('c06-default-replaced', S, "    if not imf_opts:\n        imf_opts = {'env_step_size': 1,\n                    'sd_thresh': .1}", "    if not imf_opts or 'stop_method' not in imf_opts:\n        imf_opts = {'env_step_size': 1,\n                    'sd_thresh': .1}",
    'breaking', ['C06'], 'C06.R2')
add('c06-default-literal-drift', S, "        imf_opts = {'env_step_size': 1,\n                    'sd_thresh': .1}", "        imf_opts = {'env_step_size': 1,\n                    'sd_thresh': .2}", 'breaking', ['C06'], 'C06.R2')
add('c06-extrema-fallback-drift', S, "        extrema_opts = {'pad_width': 2,\n                        'loc_pad_opts': None,", "        extrema_opts = {'pad_width': 3,\n                        'loc_pad_opts': None,", 'breaking', ['C06', 'C18'], 'R')
add('c06-mask-partial-order-benign', S, "    my_get_next_imf = functools.partial(get_next_imf, envelope_opts=envelope_opts,\n                                        extrema_opts=extrema_opts, **imf_opts)",
    "    my_get_next_imf = functools.partial(get_next_imf, extrema_opts=extrema_opts,\n                                        envelope_opts=envelope_opts, **imf_opts)", 'benign', ['C06', 'C07'])
add('c06-is-imf-drop', S, "        upper = interp_envelope(imf[:, ii], mode='upper',\n                                **envelope_opts, extrema_opts=extrema_opts)", "        upper = interp_envelope(imf[:, ii], mode='upper',\n                                **envelope_opts)",
    'breaking', ['C06'], 'C06.R1')
add('c06-config-ignore-list', S, "    envelope_opts = _get_function_opts(interp_envelope, ignore=['X', 'extrema_opts', 'mode', 'ret_extrema'])",
    "    envelope_opts = _get_function_opts(interp_envelope, ignore=['X', 'extrema_opts', 'ret_extrema'])", 'breaking', ['C06', 'C18'], 'R')

# ---------------------------------------------------------------- C08
add('c08-worker-draws', S, "    noise = np.random.randn(X.shape[0], nensembles)\n    args = [(X, noise_scaling, noise[:, ii, None], noise_mode,", "    noise = np.random.randn(X.shape[0], nensembles)\n    args = [(X, noise_scaling, None, noise_mode,",
    'breaking', ['C08'], 'C08.R1')
add('c08-same-column', S, "    noise = np.random.randn(X.shape[0], nensembles)\n    args = [(X, noise_scaling, noise[:, ii, None], noise_mode,", "    noise = np.random.randn(X.shape[0], nensembles)\n    args = [(X, noise_scaling, noise[:, 0, None], noise_mode,",
    'breaking', ['C08'], 'C08.R1')
add('c08-flip-redraw', S, "    elif noise_mode == 'flip':\n        ensX = X.copy() - noise", "    elif noise_mode == 'flip':\n        noise = np.random.randn(*X.shape)\n        ensX = X.copy() - noise", 'breaking', ['C08'], 'C08.R2')
add('c08-flip-no-half', S, "        return imf / 2", "        return imf", 'breaking', ['C08'], 'C08.R2')
add('c08-flip-same-sign', S, "    elif noise_mode == 'flip':\n        ensX = X.copy() - noise", "    elif noise_mode == 'flip':\n        ensX = X.copy() + noise", 'breaking', ['C08'], 'C08.R2')
add('c08-sum-members', S, "        imfs[:, ii] = np.array([r[:, ii] for r in res]).mean(axis=0)", "        imfs[:, ii] = np.array([r[:, ii] for r in res]).sum(axis=0)", 'breaking', ['C08'], 'C08.R2')
add('c08-wrong-column', S, "        imfs[:, ii] = np.array([r[:, ii] for r in res]).mean(axis=0)", "        imfs[:, ii] = np.array([r[:, 0] for r in res]).mean(axis=0)", 'breaking', ['C08'], 'C08.R2')
add('c08-noise-offset', S, "    noise_scaling = X.std() * ensemble_noise\n\n    p = mp.Pool(processes=nprocesses)\n\n    # Noise is generated here",
    "    noise_scaling = X.std() * ensemble_noise + 1e-3\n\n    p = mp.Pool(processes=nprocesses)\n\n    # Noise is generated here", 'breaking', ['C08'], 'C08.R3')
add('c08-ceemd-worker-draws', S, "        args = [(proto_imf, None, noise[:, ii, None], noise_mode, sift_thresh,", "        args = [(proto_imf, noise_scaling, None, noise_mode, sift_thresh,", 'breaking', ['C08'], 'C08.R1')
add('c08-generator-benign', S, "    noise = np.random.randn(X.shape[0], nensembles)\n    args = [(X, noise_scaling, noise[:, ii, None], noise_mode,",
    "    noise = np.random.standard_normal((X.shape[0], nensembles))\n    args = [(X, noise_scaling, noise[:, ii, None], noise_mode,", 'benign', ['C08', 'C06'])

# ---------------------------------------------------------------- C10
add('c10-clamp-below', SP, "    yinds = np.digitize(infr, freq_edges) - 1\n    xinds", "    yinds = np.digitize(infr, freq_edges) - 1\n    yinds[yinds < 0] = 0\n    xinds", 'breaking', ['C10'], 'C10.R1')
add('c10-keep-last-edge', SP, "    goods = np.all(np.c_[coo_data[1][0] < len(freq_edges) - 1, (coo_data[1][0] >= 0)], axis=1)",
    "    goods = np.all(np.c_[coo_data[1][0] <= len(freq_edges) - 1, (coo_data[1][0] >= 0)], axis=1)", 'breaking', ['C10'], 'C10')
add('c10-no-shift', SP, "    yinds = np.digitize(infr, freq_edges) - 1\n    xinds", "    yinds = np.digitize(infr, freq_edges)\n    xinds", 'breaking', ['C10'], 'C10.R1')
add('c10-energy-twice', SP, "    coo_data = (inam.reshape(-1), (yinds.reshape(-1), xinds.reshape(-1)))", "    coo_data = ((inam**2).reshape(-1), (yinds.reshape(-1), xinds.reshape(-1)))", 'breaking', ['C10'], 'C10.R3')
add('c10-1d-loop-short', SP, "    for ii in range(1, len(freq_edges)):\n        for jj in range(infr.shape[1]):", "    for ii in range(1, len(freq_edges) - 1):\n        for jj in range(infr.shape[1]):", 'breaking', ['C10'], 'C10')
add('c10-1d-row-shift', SP, "                specs[ii - 1, jj] = np.nansum(inam[finds[:, jj] == ii, jj])", "                specs[ii - 1, jj] = np.nansum(inam[finds[:, jj] == ii - 1, jj])", 'breaking', ['C10'], 'C10')
add('c10-1d-ge-last', SP, "    outside_inds = (infr < freq_edges[0]) + (infr > freq_edges[-1])", "    outside_inds = (infr <= freq_edges[0]) + (infr > freq_edges[-1])", 'breaking', ['C10'], 'C10')
add('c10-nbins-edges', SP, "        edges = np.linspace(data_min, data_max, nbins + 1)", "        edges = np.linspace(data_min, data_max, nbins)", 'breaking', ['C10'], 'C10.R4')
add('c10-centres-left', SP, "    centres = np.array([(edges[ii] + edges[ii + 1]) / 2 for ii in range(len(edges) - 1)])", "    centres = np.array([edges[ii] for ii in range(len(edges) - 1)])", 'breaking', ['C10'], 'C10.R4')
add('c10-time-shift', SP, "    xinds = np.tile(np.arange(yinds.shape[0]), (yinds.shape[1], 1)).T", "    xinds = np.tile(np.arange(yinds.shape[0]) + 1, (yinds.shape[1], 1)).T", 'breaking', ['C10'], 'C10.R1')
add('c10-no-dimcheck', SP, "    ensure_equal_dims((infr, inam), ('infr', 'inam'), 'hilberthuang')\n", "", 'breaking', ['C10', 'C19'], 'R')
add('c10-logical-and-benign', SP, "    goods = np.all(np.c_[coo_data[1][0] < len(freq_edges) - 1, (coo_data[1][0] >= 0)], axis=1)",
    "    goods = np.logical_and(coo_data[1][0] < len(freq_edges) - 1, coo_data[1][0] >= 0)", 'benign', ['C10'])

# ---------------------------------------------------------------- C11
add('c11-fold-stride', SP, "    infr_inds = infr_inds + IA_inds * fold_dim1", "    infr_inds = infr_inds + IA_inds * fold_dim2", 'breaking', ['C11'], 'C11.R1')
add('c11-fold-dim', SP, "    fold_dim1 = len(freq_edges) + 1", "    fold_dim1 = len(freq_edges)", 'breaking', ['C11'], 'C11.R1')
add('c11-reshape-swapped', SP, "        holo = holo.sum(axis=0)\n        holo = holo.reshape(fold_dim2, fold_dim1)", "        holo = holo.sum(axis=0)\n        holo = holo.reshape(fold_dim1, fold_dim2)", 'breaking', ['C11'], 'C11.R1')
add('c11-trim-one-margin', SP, "        holo = np.array(holo[1:-1, 1:-1])  # don't return a matrix", "        holo = np.array(holo[1:, 1:-1])  # don't return a matrix", 'breaking', ['C11'], 'C11.R1')
add('c11-mean-is-sum', SP, "        holo = holo.mean(axis=0)\n        holo = holo.reshape(fold_dim2, fold_dim1)", "        holo = holo.sum(axis=0)\n        holo = holo.reshape(fold_dim2, fold_dim1)", 'breaking', ['C11'], 'C11.R2')
add('c11-sum-axis1', SP, "        holo = holo.sum(axis=0)\n        holo = holo.reshape(fold_dim2, fold_dim1)", "        holo = holo.sum(axis=1)\n        holo = holo.reshape(fold_dim2, fold_dim1)", 'breaking', ['C11'], 'C11.R')   # now decided first by the shape rule (R1)
add('c11-energy-lost', SP, "    if mode == 'energy':\n        inam2 = inam2**2", "    if mode == 'energy':\n        inam2 = np.abs(inam2)", 'breaking', ['C11'], 'C11.R3')
add('c11-dimcheck-dropped', SP, "    ensure_equal_dims((infr, infr2, inam2), ('infr', 'infr2', 'inam2'), 'holospectrum', dim=1)\n", "", 'breaking', ['C11'], 'C11.R3')
add('c11-edges-swapped', SP, "    IA_inds = np.digitize(infr2, freq_edges2)\n    infr_inds = np.digitize(infr, freq_edges)", "    IA_inds = np.digitize(infr2, freq_edges)\n    infr_inds = np.digitize(infr, freq_edges2)", 'breaking', ['C11'], 'C11')

# ---------------------------------------------------------------- C12
add('c12-terminal-n-1', CY, "            inds = np.r_[inds, phase.shape[0]]", "            inds = np.r_[inds, phase.shape[0] - 1]", 'breaking', ['C12', 'C15'], 'C12.R1')
add('c12-no-leading', CY, "        if inds[0] >= 1:\n            inds = np.r_[0, inds]", "        if inds[0] > 1:\n            inds = np.r_[0, inds]", 'breaking', ['C12'], 'C12.R1')
add('c12-leading-one', CY, "        if inds[0] >= 1:\n            inds = np.r_[0, inds]", "        if inds[0] >= 1:\n            inds = np.r_[1, inds]", 'breaking', ['C12'], 'C12.R1')
add('c12-wrap-position', CY, "        inds = np.where(np.abs(np.diff(phase[:, ii])) > phase_step)[0] + 1", "        inds = np.where(np.abs(np.diff(phase[:, ii])) > phase_step)[0]", 'breaking', ['C12'], 'C12')
add('c12-wrap-ge', CY, "        inds = np.where(np.abs(np.diff(phase[:, ii])) > phase_step)[0] + 1", "        inds = np.where(np.abs(np.diff(phase[:, ii])) >= phase_step)[0] + 1", 'breaking', ['C12'], 'C12.R2')
add('c12-signed-diff', CY, "        inds = np.where(np.abs(np.diff(phase[:, ii])) > phase_step)[0] + 1", "        inds = np.where(np.diff(phase[:, ii]) > phase_step)[0] + 1", 'breaking', ['C12'], 'C12')
add('c12-counter-not-reset', CY, "        count = 0\n        for jj in range(len(inds) - 1):", "        for jj in range(len(inds) - 1):", 'breaking', ['C12'], 'C12')
add('c12-label-from-one', CY, "        count = 0\n        for jj in range(len(inds) - 1):", "        count = 1\n        for jj in range(len(inds) - 1):", 'breaking', ['C12'], 'C12.R3')
add('c12-skip-last-segment', CY, "        for jj in range(len(inds) - 1):\n\n            if mask is not None:", "        for jj in range(len(inds) - 2):\n\n            if mask is not None:", 'breaking', ['C12'], 'C12.R1')
add('c12-fill-zero', CY, "    cycles = np.zeros_like(phase, dtype=int) - 1", "    cycles = np.zeros_like(phase, dtype=int)", 'breaking', ['C12'], 'C12.R3')
add('c12-no-early-continue', CY, "        # No Cycles to be found\n        if len(inds) == 0:\n            continue\n", "", 'breaking', ['C12'], 'C12.R4')
add('c12-append-benign', CY, "            inds = np.r_[inds, phase.shape[0]]", "            inds = np.append(inds, phase.shape[0])", 'benign', ['C12', 'C13', 'C15'])

# ---------------------------------------------------------------- C13
add('c13-strict-to-nonstrict', CY, "    if np.all(np.diff(phase) > 0):", "    if np.all(np.diff(phase) >= 0):", 'breaking', ['C13'], 'C13.R1')
add('c13-start-edge-wrong-end', CY, "    if (phase[0] >= phase_min and phase[0] <= phase_min + phase_edge):", "    if (phase[0] >= phase_min and phase[-1] <= phase_min + phase_edge):", 'breaking', ['C13'], 'C13.R1')
add('c13-end-edge-sign', CY, "    if (phase[- 1] <= 2 * np.pi) and (phase[- 1] >= 2 * np.pi - phase_edge):", "    if (phase[- 1] <= 2 * np.pi) and (phase[- 1] >= 2 * np.pi + phase_edge):", 'breaking', ['C13'], 'C13.R1')
add('c13-any-checks', CY, "            if all(cycle_checks):", "            if any(cycle_checks):", 'breaking', ['C13'], 'C13.R2')
add('c13-first-three-checks', CY, "            if all(cycle_checks):", "            if all(cycle_checks[:2]):", 'breaking', ['C13'], 'C13.R2')
add('c13-mask-any-true', CY, "                if any(~mask[inds[jj]:inds[jj + 1]]):", "                if all(~mask[inds[jj]:inds[jj + 1]]):", 'breaking', ['C13'], 'C13.R2')
add('c13-edge-not-forwarded', CY, "                cycle_checks = is_good(cycle_phase, ret_all_checks=True, phase_edge=phase_edge)", "                cycle_checks = is_good(cycle_phase, ret_all_checks=True)", 'breaking', ['C13'], 'C13.R2')
add('c13-container-default-edge', CY, "                                  functools.partial(is_good, phase_edge=phase_edge), dtype=int)", "                                  is_good, dtype=int)", 'breaking', ['C13'], 'C13.R3')
add('c13-mask-slice-shifted', CY, "                if any(~mask[inds[jj]:inds[jj + 1]]):", "                if any(~mask[inds[jj] + 1:inds[jj + 1]]):", 'breaking', ['C13'], 'C13.R2')
add('c13-equiv-benign', CY, "    if (phase[0] >= phase_min and phase[0] <= phase_min + phase_edge):", "    if (phase_min <= phase[0] <= phase_min + phase_edge):", 'benign', ['C13'])


# ---------------------------------------------------------------- C14 per-cycle statistics / phase alignment
CS = 'emd/_cycles_support.py'
CY = 'emd/cycles.py'
_STAT = ("        inds = map_cycle_to_samples(cycle_vect, ii)\n        if isinstance(vals, tuple):\n"
         "            args = [v[inds] for v in vals]\n            out[ii] = func(*args)\n        else:\n"
         "            out[ii] = func(vals[inds])")
add('c14-stat-next-cycle', CS, _STAT, _STAT.replace('map_cycle_to_samples(cycle_vect, ii)', 'map_cycle_to_samples(cycle_vect, ii + 1)'),
    'breaking', ['C14'], 'C14.R1')
add('c14-stat-drop-last-sample', CS, _STAT, _STAT.replace('func(vals[inds])', 'func(vals[inds[:-1]])'),
    'breaking', ['C14'], 'C14.R1')
add('c14-stat-wrong-slot', CS, _STAT, _STAT.replace('            out[ii] = func(vals[inds])', '            out[ii - 1] = func(vals[inds])'),
    'breaking', ['C14'], 'C14.R1')
add('c14-stat-tuple-first-only', CS, _STAT, _STAT.replace('args = [v[inds] for v in vals]', 'args = [vals[0][inds] for v in vals]'),
    'breaking', ['C14'], 'C14.R1')
add('c14-map-ge', CS, "    sample_inds = np.where(cycle_vect == ii)[0]", "    sample_inds = np.where(cycle_vect >= ii)[0]",
    'breaking', ['C14', 'C16'], 'R')
add('c14-map-flatnonzero-benign', CS, "    sample_inds = np.where(cycle_vect == ii)[0]", "    sample_inds = np.flatnonzero(cycle_vect == ii)",
    'benign', ['C14', 'C16'])
_PROJ = ('    """Transform per-cycle data to full sample vector."""\n'
         '    out = np.zeros_like(cycle_vect).astype(float) * np.nan')
add('c14-project-zero-init', CS, _PROJ, _PROJ.replace(' * np.nan', ''), 'breaking', ['C14', 'C16'], 'R')
add('c14-project-full-nan-benign', CS, _PROJ, _PROJ.replace('np.zeros_like(cycle_vect).astype(float) * np.nan', 'np.full(cycle_vect.shape, np.nan)'),
    'benign', ['C14', 'C16'])
_PROJ2 = ("        inds = map_cycle_to_samples(cycle_vect, ii)\n        out[inds] = vals[ii]\n    return out")
add('c14-project-first-sample-only', CS, _PROJ2, _PROJ2.replace('out[inds] = vals[ii]', 'out[inds[0]] = vals[ii]'),
    'breaking', ['C14'], 'C14.R2')
add('c14-project-value-shift', CS, _PROJ2, _PROJ2.replace('out[inds] = vals[ii]', 'out[inds] = vals[ii - 1]'),
    'breaking', ['C14'], 'C14.R2')
add('c14-align-edges', CY, "        avg[:, cind] = f(phase_bins)", "        avg[:, cind] = f(phase_edges[:-1])", 'breaking', ['C14'], 'C14.R3')
add('c14-align-column', CY, "        avg[:, cind] = f(phase_bins)", "        avg[:, cind - 1] = f(phase_bins)", 'breaking', ['C14'], 'C14.R3')
add('c14-align-x-shifted', CY, "        x_data = x[cycle_inds]\n", "        x_data = x[cycle_inds - 1]\n", 'breaking', ['C14'], 'C14.R3')
add('c14-align-grid-range', CY, "        phase_edges, phase_bins = spectra.define_hist_bins(0, 2 * np.pi, npoints)\n    elif mode == 'augmented':",
    "        phase_edges, phase_bins = spectra.define_hist_bins(0, np.pi, npoints)\n    elif mode == 'augmented':", 'breaking', ['C14'], 'C14.R3')
add('c14-bin-loop-short', CY, "    for ii in range(1, nbins + 1):\n        inds = bin_inds == ii", "    for ii in range(1, nbins):\n        inds = bin_inds == ii",
    'breaking', ['C14'], 'C14.R4')
add('c14-bin-class-shift', CY, "    for ii in range(1, nbins + 1):\n        inds = bin_inds == ii", "    for ii in range(1, nbins + 1):\n        inds = bin_inds == ii - 1",
    'breaking', ['C14'], 'C14.R4')
add('c14-bin-paren-benign', CY, "    for ii in range(1, nbins + 1):\n        inds = bin_inds == ii", "    for ii in range(1, nbins + 1):\n        inds = (bin_inds == ii)",
    'benign', ['C14'])

# ---------------------------------------------------------------- C16 index maps
add('c16-subset-sentinel-ge', CS, "    return subset_ind if subset_ind > -1 else None", "    return subset_ind if subset_ind > 0 else None",
    'breaking', ['C16'], 'C16.R2')
add('c16-subset-sentinel-dropped', CS, "    return subset_ind if subset_ind > -1 else None", "    return subset_ind",
    'breaking', ['C16'], 'C16.R2')
add('c16-subset-sentinel-ge0-benign', CS, "    return subset_ind if subset_ind > -1 else None", "    return subset_ind if subset_ind >= 0 else None",
    'benign', ['C16'])
add('c16-sample-guard-dropped', CS, "    if all_cycle_ind is None or all_cycle_ind < 0:\n        # Samples outside any cycle are labelled -1\n        return None\n",
    "", 'breaking', ['C16'], 'C16.R2')
add('c16-subset-to-cycle-wrong-vector', CS, "    all_cycle_ind = map_subset_to_cycle(subset_vect, ii)\n    return map_cycle_to_samples(cycle_vect, all_cycle_ind)",
    "    all_cycle_ind = map_subset_to_cycle(subset_vect, ii)\n    return map_cycle_to_samples(subset_vect, all_cycle_ind)", 'breaking', ['C16'], 'C16.R1')
add('c16-chain-skips-subset', CS, "    subset_inds = map_chain_to_subset(chain_vect, ii)\n    sample_inds = [map_subset_to_sample(subset_vect, cycle_vect, jj) for jj in subset_inds]",
    "    subset_inds = map_chain_to_subset(chain_vect, ii)\n    sample_inds = [map_cycle_to_samples(cycle_vect, jj) for jj in subset_inds]", 'breaking', ['C16'], 'C16.R1')
add('c16-cycle-to-chain-no-none', CS, "    subset_cycle_ind = map_cycle_to_subset(subset_vect, ii)\n    if subset_cycle_ind is None:\n        return None\n",
    "    subset_cycle_ind = map_cycle_to_subset(subset_vect, ii)\n", 'breaking', ['C16'], 'C16.R2')
add('c16-project-chain-via-cycles', CS, "    subset_vals = project_chain_to_subset(vals, chain_vect)\n    return project_subset_to_cycles(subset_vals, subset_vect)",
    "    subset_vals = project_chain_to_subset(vals, chain_vect)\n    return project_subset_to_cycles(subset_vals, chain_vect)", 'breaking', ['C16'], 'C16.R')
add('c16-project-subset-map', CS, "        inds = map_subset_to_cycle(subset_vect, ii)\n        out[inds] = vals[ii]",
    "        inds = map_cycle_to_subset(subset_vect, ii)\n        out[inds] = vals[ii]", 'breaking', ['C16'], 'C16.R')
add('c16-chain-to-cycle-squeeze', CS, "    cycle_ind = np.hstack([map_subset_to_cycle(subset_vect, jj) for jj in subset_ind])",
    "    cycle_ind = np.squeeze([map_subset_to_cycle(subset_vect, jj) for jj in subset_ind])", 'breaking', ['C16'], 'C16.R3')
add('c16-chain-to-cycle-concat-benign', CS, "    cycle_ind = np.hstack([map_subset_to_cycle(subset_vect, jj) for jj in subset_ind])",
    "    cycle_ind = np.concatenate([map_subset_to_cycle(subset_vect, jj) for jj in subset_ind])", 'benign', ['C16'])

# ---------------------------------------------------------------- C17 feature matching
add('c17-unique-sorted-space', CY, "    ar_inds = [np.where(ar == ii)[0] for ii in aux[mask]]", "    ar_inds = [np.where(aux == ii)[0] for ii in aux[mask]]",
    'breaking', ['C17'], 'C17.R1')
add('c17-unique-inplace-sort', CY, "    aux = np.sort(ar)\n", "    ar.sort()\n    aux = ar\n", 'breaking', ['C17'], 'C17.R1')
add('c17-range-guard-dropped', CY, "        if (np.sum(II[ii, :]) == 1) and (winner[ii] < y.shape[0]) and \\\n           (inds[ii, winner[ii]] < y.shape[0]):",
    "        if (np.sum(II[ii, :]) == 1) and (winner[ii] < y.shape[0]):", 'breaking', ['C17'], 'C17.R2')
add('c17-range-guard-le', CY, "           (inds[ii, winner[ii]] < y.shape[0]):", "           (inds[ii, winner[ii]] <= y.shape[0]):", 'breaking', ['C17'], 'C17.R2')
add('c17-final-not-winner', CY, "            final[ii] = inds[ii, winner[ii]]", "            final[ii] = inds[ii, 0]", 'breaking', ['C17'], 'C17.R2')
add('c17-xinds-ge-minus1', CY, "    x_inds = np.where(final > -1)[0]", "    x_inds = np.where(final >= -1)[0]", 'breaking', ['C17'], 'C17.R2')
add('c17-yinds-all', CY, "    y_inds = final[x_inds]", "    y_inds = final[final > 0]", 'breaking', ['C17'], 'C17.R2')
add('c17-k-not-forwarded', CY, "    D, inds = kdt.query(x, k=K, distance_upper_bound=distance_upper_bound)", "    D, inds = kdt.query(x, k=2, distance_upper_bound=distance_upper_bound)",
    'breaking', ['C17'], 'C17.R2')
add('c17-bound-not-forwarded', CY, "    D, inds = kdt.query(x, k=K, distance_upper_bound=distance_upper_bound)", "    D, inds = kdt.query(x, k=K)",
    'breaking', ['C17'], 'C17.R2')
add('c17-xinds-ge0-benign', CY, "    x_inds = np.where(final > -1)[0]", "    x_inds = np.where(final >= 0)[0]", 'benign', ['C17'])

# ---------------------------------------------------------------- C18 configurations
add('c18-getitem-depth3-wrong', S, "                return self.store[key[0]][key[1]][key[2]]", "                return self.store[key[0]][key[1]]",
    'breaking', ['C18'], 'C18.R')
add('c18-setitem-depth2-top', S, "                self.store[key[0]][key[1]] = value", "                self.store[key[1]] = value",
    'breaking', ['C18'], 'C18.R')
add('c18-delitem-depth2-parent', S, "                del self.store[key[0]][key[1]]\n            elif", "                del self.store[key[0]]\n            elif", 'breaking', ['C18'], 'C18.R')
add('c18-keytransform-sep', S, "        key = key.split('/')\n        if len(key) == 1:", "        key = key.split('.')\n        if len(key) == 1:",
    'breaking', ['C18'], 'C18.R')
add('c18-yaml-type-lost', S, "            ret.sift_type = cfg[0]['sift_type']\n            ret.store = cfg[1]\n        return ret",
    "            ret.store = cfg[1]\n        return ret", 'breaking', ['C18'], 'C18.R')
add('c18-yaml-text-drops-type', S, "        return [{'sift_type': self.sift_type}, conf]", "        return [{'sift_type': 'sift'}, conf]",
    'breaking', ['C18'], 'C18.R')
add('c18-get-func-wrong-type', S, "        func = getattr(mod, self.sift_type)\n        return functools.partial(func, **self.store)",
    "        func = getattr(mod, 'sift')\n        return functools.partial(func, **self.store)", 'breaking', ['C18'], 'C18.R')
add('c18-tuple-not-converted', S, "        elif isinstance(val, tuple):\n            out[key] = list(val)\n", "", 'breaking', ['C18'], 'C18.R6')
add('c18-nested-not-converted', S, "            out[key] = _array_or_tuple_to_list(val)", "            out[key] = val", 'breaking', ['C18'], 'C18.R')
add('c18-config-pad-default', S, "    mag_pad_opts = {'mode': 'median', 'stat_length': 1}\n    loc_pad_opts = {'mode': 'reflect', 'reflect_type': 'odd'}\n\n    # Get defaults for extrema detection",
    "    mag_pad_opts = {'mode': 'median', 'stat_length': 2}\n    loc_pad_opts = {'mode': 'reflect', 'reflect_type': 'odd'}\n\n    # Get defaults for extrema detection",
    'breaking', ['C18'], 'C18.R1')
add('c18-config-ignore-missing', S, "    imf_opts = _get_function_opts(get_next_imf, ignore=['X', 'envelope_opts', 'extrema_opts'])",
    "    imf_opts = _get_function_opts(get_next_imf, ignore=['envelope_opts', 'extrema_opts'])", 'breaking', ['C18'], 'C18.R')

# ---------------------------------------------------------------- C19 input layout / validation / non-mutation
SU = 'emd/support.py'
add('c19-vector-accepts-wide', SU, "        elif (xx.ndim > 1) and (xx.shape[1] != 1):\n            msg = \"Checking {0} inputs - Input '{1}' {2} must be a vector or 2d with singleton second dim\"\n            msg = msg.format(func_name, names[idx], xx.shape)\n            logger.error(msg)\n            raise ValueError(msg)",
    "        elif (xx.ndim > 1) and (xx.shape[1] != 1):\n            out_args[idx] = out_args[idx][:, 0]", 'breaking', ['C19'], 'C19.R')
add('c19-vector-keeps-column', SU, "            out_args[idx] = out_args[idx][:, 0]\n            logger.warning(msg)", "            logger.warning(msg)",
    'breaking', ['C19'], 'C19.R')
add('c19-equal-dims-any', SU, "    if np.all(check) == False:  # noqa: E712", "    if np.any(check) == False:  # noqa: E712", 'breaking', ['C19'], 'C19.R')
add('c19-equal-dims-first-only', SU, "    check = [True] + [all_dims[0] == all_dims[ii + 1] for ii in range(len(all_dims[1:]))]",
    "    check = [True] + [all_dims[0] == all_dims[1]]", 'breaking', ['C19'], 'C19.R')
add('c19-equal-dims-not-benign', SU, "    if np.all(check) == False:  # noqa: E712", "    if not np.all(check):", 'benign', ['C19'])

# ---------------------------------------------------------------- C20 logging
LG = 'emd/logger.py'
add('c20-restore-only-on-success', LG, "        try:\n            func_output = func(*args, **kwargs)\n        finally:\n            if ('verbose' in kwargs) and (kwargs['verbose'] is not None):\n                # current_level is None if the logger has not been set up yet\n                if current_level is not None:\n                    set_level(level=logging._levelToName[current_level])\n",
    "        func_output = func(*args, **kwargs)\n        if ('verbose' in kwargs) and (kwargs['verbose'] is not None):\n            # current_level is None if the logger has not been set up yet\n            if current_level is not None:\n                set_level(level=logging._levelToName[current_level])\n",
    'breaking', ['C20'], 'C20.R1')
add('c20-restore-none-unguarded', LG, "                if current_level is not None:\n                    set_level(level=logging._levelToName[current_level])",
    "                set_level(level=logging._levelToName[current_level])", 'breaking', ['C20'], 'C20.R2')
add('c20-restore-wrong-level', LG, "                    set_level(level=logging._levelToName[current_level])", "                    set_level(level=tmp_level)",
    'breaking', ['C20'], 'C20.R1')
add('c20-saved-after-change', LG, "            current_level = get_level()\n            set_level(level=tmp_level)", "            set_level(level=tmp_level)\n            current_level = get_level()",
    'breaking', ['C20'], 'C20.R1')
add('c20-wrapper-drops-kwargs', LG, "            func_output = func(*args, **kwargs)\n        finally:", "            func_output = func(*args)\n        finally:",
    'breaking', ['C20'], 'C20.R4')
add('c20-wrapper-calls-twice', LG, "            # Call function itself\n            func_output = func(*args, **kwargs)", "            # Call function itself\n            func(*args, **kwargs)\n            func_output = func(*args, **kwargs)",
    'breaking', ['C20'], 'C20.R4')
add('c20-set-level-all-handlers', LG, "    for handler in logger.handlers:\n        if handler.get_name() == 'console':\n            if level in ['INFO', 'DEBUG']:",
    "    for handler in logger.handlers:\n        if True:\n            if level in ['INFO', 'DEBUG']:", 'breaking', ['C20'], 'C20.R5')
add('c20-get-level-any-handler', LG, "        if handler.get_name() == 'console':\n            return handler.level", "        if handler.get_name() != 'file':\n            return handler.level",
    'breaking', ['C20'], 'C20.R5')
add('c20-sift-reads-level', S, "    _nsamples_warn(X.shape[0], max_imfs)\n\n    continue_sift = True\n    layer = 0\n\n    proto_imf = X.copy()",
    "    _nsamples_warn(X.shape[0], max_imfs)\n    if logger.isEnabledFor(10):\n        sift_thresh = sift_thresh * 10\n\n    continue_sift = True\n    layer = 0\n\n    proto_imf = X.copy()",
    'breaking', ['C20'], 'C20.R3')


# ---------------------------------------------------------------- rules added for the third wave
# (listed as benign until the fifth seeding wave: an independent sub-agent delivered exactly this edit as a breaking
# change with a demonstration - the in-place update keeps the caller's dtype: an integer signal raises a casting error,
# a float32 signal is rounded in every layer and later components differ from sift of `X - previous components`)
add('c03-resid-inplace-dtype', S, "        proto_imf = X - imf.sum(axis=1)[:, None]\n        layer += 1",
    "        proto_imf -= next_imf\n        layer += 1", 'breaking', ['C03', 'C01'], 'R1')
add('c01-gni-no-copy-alone-benign', S, "    proto_imf = X.copy()\n\n    continue_imf = True", "    proto_imf = X\n\n    continue_imf = True",
    'benign', ['C01', 'C03'])
add('c01-break-on-cap-benign', S, "        if max_imfs is not None and layer == max_imfs:\n            logger.info('Finishing sift: reached max number of imfs ({0})'.format(layer))\n            continue_sift = False\n",
    "        if max_imfs is not None and layer == max_imfs:\n            logger.info('Finishing sift: reached max number of imfs ({0})'.format(layer))\n            break\n",
    'benign', ['C01', 'C03'])
add('c01-cap-test-only-logs', S, "            logger.info('Finishing sift: reached max number of imfs ({0})'.format(layer))\n            continue_sift = False\n",
    "            logger.info('Finishing sift: reached max number of imfs ({0})'.format(layer))\n", 'breaking', ['C03'], 'R3')
add('c04-stop-ignored', S, "        if stop:\n            proto_imf = x1.copy()\n            continue_imf = False\n            continue\n",
    "        if stop:\n            proto_imf = x1.copy()\n", 'breaking', ['C04'], 'C04.R')
add('c06-trough-option-dropped', S, "        max_locs, max_ext = _find_extrema(-X, parabolic_extrema=parabolic_extrema)",
    "        max_locs, max_ext = _find_extrema(-X)", 'breaking', ['C06'], 'C06.R4')
_NU = "        noise = noise - np.array([r[:, 0] for r in res]).T\n\n        pks, _ = _find_extrema(imf[:, -1])"
add('c08-noise-update-second-imf', S, _NU, _NU.replace('r[:, 0]', 'r[:, 1]'), 'breaking', ['C08'], 'C08.R4')
add('c08-noise-update-squeeze', S, _NU, _NU.replace('np.array([r[:, 0] for r in res]).T', 'np.squeeze([r[:, 0] for r in res]).T'),
    'breaking', ['C08'], 'C08.R4')
add('c08-noise-update-stack-benign', S, _NU, _NU.replace('np.array([r[:, 0] for r in res]).T', 'np.stack([r[:, 0] for r in res], axis=1)'),
    'benign', ['C08'])
add('c08-noise-update-not-transposed', S, _NU, _NU.replace('np.array([r[:, 0] for r in res]).T', 'np.array([r[:, 0] for r in res])'),
    'breaking', ['C08'], 'C08.R4')
add('c08-worker-inplace', S, "    ensX = X.copy() + noise\n", "    ensX = X\n    ensX += noise\n", 'breaking', ['C08'], 'C08.R1')
add('c09-budget-shared', 'emd/utils.py', "            iters = 0\n            while continue_norm and (iters < max_iters):",
    "            while continue_norm and (iters < max_iters):", 'breaking', ['C09'], 'C09.R3')
_AUG = "    return np.arange(inds[0] - xx[0], inds[-1] + 1)"
add('c15-aug-stop-short', CS, _AUG, "    return np.arange(inds[0] - xx[0], inds[-1])", 'breaking', ['C15'], 'C15.R7')
add('c15-aug-start-shift', CS, _AUG, "    return np.arange(inds[0] - xx[0] - 1, inds[-1] + 1)", 'breaking', ['C15'], 'C15.R7')
add('c15-aug-threshold-le', CS, "    xx = np.where(np.flipud(phase[:inds[0]]) < 1.5*np.pi)[0]\n    if len(xx) == 0:\n        # No candidate trough to the left of this cycle",
    "    xx = np.where(np.flipud(phase[:inds[0]]) <= 1.5*np.pi)[0]\n    if len(xx) == 0:\n        # No candidate trough to the left of this cycle",
    'breaking', ['C15'], 'C15.R7')
add('c15-aug-named-start-benign', CS, _AUG, "    start = inds[0] - xx[0]\n    stop = inds[-1] + 1\n    return np.arange(start, stop)", 'benign', ['C15', 'C16'])
add('c15-aug-none-guard-dropped', CS, "        if inds is None:\n            # No augmented cycle here, same result as the slice-cache route\n            out[ii] = np.nan\n        elif isinstance(vals, tuple):",
    "        if isinstance(vals, tuple):", 'breaking', ['C15'], 'C15.R8')
add('c15-slice-none-guard-dropped', CS, " if s is not None else np.nan for s in slices])", " for s in slices])", 'breaking', ['C15'], 'C15.R8')
add('c14-stat-caller-wrong-labels', CY, "        vals = _cycles_support.project_cycles_to_samples(vals, cycles.cycle_vect)",
    "        vals = _cycles_support.project_cycles_to_samples(vals, cycles.subset_vect)", 'breaking', ['C14'], 'C14.R5')
add('c14-align-no-extrapolate', CY, "                            bounds_error=False, fill_value='extrapolate')", "                            bounds_error=False)",
    'breaking', ['C14'], 'C14.R3')
add('c17-argmin-method-benign', CY, "        ix = [np.argmin(D[uni_inds[jj], ii]) for jj in range(len(uni))]", "        ix = [D[uni_inds[jj], ii].argmin() for jj in range(len(uni))]",
    'benign', ['C17'])
add('c17-argmin-other-column', CY, "        ix = [np.argmin(D[uni_inds[jj], ii]) for jj in range(len(uni))]", "        ix = [np.argmin(D[uni_inds[jj], 0]) for jj in range(len(uni))]",
    'breaking', ['C17'], 'C17.R3')
add('c19-ensure2d-reshape-benign', SU, "        if to_check[idx].ndim == 1:\n            msg = \"Checking {0} inputs - Adding dummy dimension to input '{1}'\"\n            logger.debug(msg.format(func_name, names[idx]))\n            out_args[idx] = out_args[idx][:, np.newaxis]", "        if to_check[idx].ndim == 1:\n            out_args[idx] = out_args[idx].reshape(-1, 1)", 'benign', ['C19', 'C10', 'C11', 'C12'])
add('c19-ensure2d-astype', SU, "        if to_check[idx].ndim == 1:\n            msg = \"Checking {0} inputs - Adding dummy dimension to input '{1}'\"\n            logger.debug(msg.format(func_name, names[idx]))\n            out_args[idx] = out_args[idx][:, np.newaxis]", "        if to_check[idx].ndim == 1:\n            out_args[idx] = out_args[idx][:, np.newaxis].astype(float)", 'breaking', ['C19'], 'C19.R1')
add('c19-ensure2d-row-vector', SU, "        if to_check[idx].ndim == 1:\n            msg = \"Checking {0} inputs - Adding dummy dimension to input '{1}'\"\n            logger.debug(msg.format(func_name, names[idx]))\n            out_args[idx] = out_args[idx][:, np.newaxis]", "        if to_check[idx].ndim == 1:\n            out_args[idx] = out_args[idx][np.newaxis, :]", 'breaking', ['C19', 'C10'], 'R')
add('c20-get-level-sets-up', LG, "    logger = logging.getLogger('emd')\n    for handler in logger.handlers:\n        if handler.get_name() == 'console':\n            return handler.level",
    "    if not is_active():\n        set_up()\n    logger = logging.getLogger('emd')\n    for handler in logger.handlers:\n        if handler.get_name() == 'console':\n            return handler.level",
    'breaking', ['C20'], 'C20.R5')
add('c18-mask-amp-ndarray-test', S, "        if isinstance(mask_amp, (int, float)):\n            amp = mask_amp * sd\n        else:\n            # Should be array_like if not a single number\n            amp = mask_amp[imf_layer] * sd",
    "        if isinstance(mask_amp, np.ndarray):\n            amp = mask_amp[imf_layer] * sd\n        else:\n            amp = mask_amp * sd", 'breaking', ['C18'], 'C18.R6')


# ---------------------------------------------------------------- rules added from the mutation experiment
CY = 'emd/cycles.py'
add('m-c14-bin-axis', CY, "            avg[ii - 1, ...] = np.average(x[inds, ...], axis=0)\n            v = np.average(\n",
    "            avg[ii - 1, ...] = np.average(x[inds, ...])\n            v = np.average(\n", 'breaking', ['C14'], 'C14.R4')
add('m-c14-bin-default-edges', CY, "        bin_edges, bin_centres = spectra.define_hist_bins(0, 2 * np.pi, nbins)\n    else:\n        nbins = len(bin_edges) - 1",
    "        bin_edges, bin_centres = spectra.define_hist_bins(0, np.pi, nbins)\n    else:\n        nbins = len(bin_edges) - 1",
    'breaking', ['C14'], 'C14.R4')
add('m-c14-bin-digitize-swapped', CY, "    bin_inds = np.digitize(ip, bin_edges)\n", "    bin_inds = np.digitize(bin_edges, ip)\n",
    'breaking', ['C14'], 'C14.R4')
add('m-c14-bin-alloc', CY, "    out_dims = list((nbins, *x.shape[1:]))\n", "    out_dims = list((nbins, *x.shape[0:]))\n",
    'breaking', ['C14'], 'C14.R4')
add('m-c14-bin-mean-forms-benign', CY, "            avg[ii - 1, ...] = np.average(x[inds, ...], axis=0)\n            v = np.average(\n",
    "            avg[ii - 1, ...] = x[inds, ...].mean(axis=0)\n            v = np.average(\n", 'benign', ['C14'])
add('m-c14-bin-sum-count-benign', CY, "            avg[ii - 1, ...] = np.average(x[inds, ...], axis=0)\n            v = np.average(\n",
    "            avg[ii - 1, ...] = np.sum(x[inds, ...], axis=0) / np.sum(inds)\n            v = np.average(\n", 'benign', ['C14'])
add('m-c14-bin-rename-benign', CY, "    return avg, var, bin_centres\n\n\n",
    "    binned_mean = avg\n    return binned_mean, var, bin_centres\n\n\n", 'benign', ['C14'])
add('m-c14-bin-empty-guard', CY, "            if inds.sum() > 0:\n                avg[ii - 1, ...] = np.average(x[inds, ...], axis=0,",
    "            if inds.sum() < 1:\n                avg[ii - 1, ...] = np.average(x[inds, ...], axis=0,", 'breaking', ['C14'], 'C14.R4')
add('m-c14-align-cycles-negated', CY, "    if cycles is None:\n        cycles = get_cycle_vector(ip, return_good=False)\n    cycles = _ensure_cycle_inputs(cycles)\n\n    cycles.mode = mode",
    "    if cycles is not None:\n        cycles = get_cycle_vector(ip, return_good=False)\n    cycles = _ensure_cycle_inputs(cycles)\n\n    cycles.mode = mode",
    'breaking', ['C14'], 'C14.R3')
add('m-c14-align-skip-negated', CY, "        if (ii is not None) and (cind is not ii):\n            continue\n        if cycle_inds is None:\n            continue\n        phase_data",
    "        if (ii is None) and (cind is not ii):\n            continue\n        if cycle_inds is None:\n            continue\n        phase_data",
    'breaking', ['C14'], 'C14.R3')
add('m-c14-align-skip-equal-benign', CY, "        if (ii is not None) and (cind is not ii):\n            continue\n        if cycle_inds is None:\n            continue\n        phase_data",
    "        if ii is not None and cind != ii:\n            continue\n        if cycle_inds is None:\n            continue\n        phase_data",
    'benign', ['C14'])
add('m-c15-dispatch-func-dropped', CY, "                vals = _cycles_support.get_cycle_stat_from_samples(vals, self.cycle_vect, func=func)\n",
    "                vals = _cycles_support.get_cycle_stat_from_samples(vals, self.cycle_vect)\n", 'breaking', ['C15'], 'C15.R9')
add('m-c15-dispatch-cache-negated', CY, "            if self._slice_cache is None:\n                vals = _cycles_support.get_cycle_stat_from_samples",
    "            if self._slice_cache is not None:\n                vals = _cycles_support.get_cycle_stat_from_samples", 'breaking', ['C15'], 'C15.R9')
add('m-c15-dispatch-always-labels-benign', CY,
    "            if self._slice_cache is None:\n                vals = _cycles_support.get_cycle_stat_from_samples(vals, self.cycle_vect, func=func)\n            else:\n                vals = _cycles_support.get_slice_stat_from_samples(vals, self._slice_cache, func=func)\n",
    "            vals = _cycles_support.get_cycle_stat_from_samples(vals, self.cycle_vect, func=func)\n", 'benign', ['C15'])
add('m-c15-chain-metric-unprojected', CY, "        vals = _cycles_support.project_chain_to_cycles(vals, self.chain_vect, self.subset_vect)\n\n        if dtype is not None:\n            # Can't have nans",
    "        if dtype is not None:\n            # Can't have nans", 'breaking', ['C15'], 'C15.R9')
add('m-c15-chain-metric-recode', CY, "            vals[np.isnan(vals)] = -1\n            vals = vals.astype(dtype)\n\n        self.add_cycle_metric(name, vals)\n\n    def compute_cycle_timings",
    "            vals[np.isnan(vals)] = 0\n            vals = vals.astype(dtype)\n\n        self.add_cycle_metric(name, vals)\n\n    def compute_cycle_timings",
    'breaking', ['C15'], 'C15.R9')
add('m-c15-add-metric-dtype-negated', CY, "        if dtype is not None:\n            if dtype is int:\n                cycle_vals = cycle_vals.copy()",
    "        if dtype is None:\n            if dtype is int:\n                cycle_vals = cycle_vals.copy()", 'breaking', ['C15'], 'C15.R9')
add('m-c15-chain-ind-range', CY, "        vals = _cycles_support.project_chain_to_cycles(np.arange(self.chain_vect.max()+1),",
    "        vals = _cycles_support.project_chain_to_cycles(np.arange(self.chain_vect.max()),", 'breaking', ['C15'], 'C15.R9')
add('m-c15-chain-position-members', CY, "            inds = np.where(self.chain_vect == ii)[0]\n            chain_pos[inds] = np.arange(len(inds))",
    "            inds = np.where(self.chain_vect != ii)[0]\n            chain_pos[inds] = np.arange(len(inds))", 'breaking', ['C15'], 'C15.R9')
add('m-c15-chain-position-longer-range-benign', CY, "        for ii in range(self.chain_vect.max() + 1):\n            inds = np.where(self.chain_vect == ii)[0]",
    "        for ii in range(self.chain_vect.max() + 2):\n            inds = np.where(self.chain_vect == ii)[0]", 'benign', ['C15'])
add('m-c15-chain-position-ones-benign', CY, "        chain_pos = np.zeros_like(self.chain_vect)\n", "        chain_pos = np.ones_like(self.chain_vect)\n",
    'benign', ['C15'])
add('m-c15-init-cache-attr', CY, "            self._slice_cache = None\n            self._slice_cache_aug = None\n", "            self._slice_cache_aug = None\n",
    'breaking', ['C15'], 'C15.R10')
add('m-c15-init-helper-benign', CY, "        self.subset_vect = None\n        self.chain_vect = None\n        self.mask_conditions = None\n\n        self.metrics = dict()\n        self.compute_cycle_metric('is_good', self.phase,\n                                  functools.partial(is_good, phase_edge=phase_edge), dtype=int)\n        if compute_timings:\n            self.compute_cycle_timings()\n",
    "        self._reset_subset()\n\n        self.metrics = dict()\n        self.compute_cycle_metric('is_good', self.phase,\n                                  functools.partial(is_good, phase_edge=phase_edge), dtype=int)\n        if compute_timings:\n            self.compute_cycle_timings()\n\n    def _reset_subset(self):\n        self.subset_vect = None\n        self.chain_vect = None\n        self.mask_conditions = None\n",
    'benign', ['C15', 'C13'])
add('m-c15-chain-unlabelled', CY, "        if dchain_inds[ii] == 1:\n            chainv[ii] = count\n", "        if dchain_inds[ii] == 1:\n            pass\n",
    'breaking', ['C15'], 'C15.R3')
add('m-c17-member-axis', CY, "np.sum(inds[closest_uni_inds, ii, None] == uni, axis=1)", "np.sum(inds[closest_uni_inds, ii, None] == uni)",
    'breaking', ['C17'], 'C17.R4')
add('m-c17-member-ne', CY, "np.sum(inds[closest_uni_inds, ii, None] == uni, axis=1)", "np.sum(inds[closest_uni_inds, ii, None] != uni, axis=1)",
    'breaking', ['C17'], 'C17.R4')
add('m-c17-member-any-benign', CY, "np.sum(inds[closest_uni_inds, ii, None] == uni, axis=1)", "np.any(inds[closest_uni_inds, ii, None] == uni, axis=1)",
    'benign', ['C17'])
add('m-c17-member-isin-benign', CY, "np.sum(inds[closest_uni_inds, ii, None] == uni, axis=1)", "np.isin(inds[closest_uni_inds, ii], uni)",
    'benign', ['C17'])
add('m-c17-selected-polarity', CY, "        uni = uni[bo == False]  # noqa: E712", "        uni = uni[bo == True]  # noqa: E712",
    'breaking', ['C17'], 'C17.R4')
add('m-c17-selected-not-recorded', CY, "        selected.extend(inds[np.where(uni_matches)[0], ii])\n", "        pass\n",
    'breaking', ['C17'], 'C17.R4')
add('m-c17-final-float', CY, "    final = np.zeros((II.shape[0],), dtype=int)\n", "    final = np.zeros((II.shape[0],))\n",
    'breaking', ['C17'], 'C17.R4')
add('m-c17-final-full-benign', CY, "    final = np.zeros((II.shape[0],), dtype=int)\n", "    final = np.full(II.shape[0], -1)\n",
    'benign', ['C17'])
add('m-c17-marks-ones', CY, "        uni_matches = np.zeros((inds.shape[0],))\n", "        uni_matches = np.ones((inds.shape[0],))\n",
    'breaking', ['C17'], 'C17.R4')
add('m-c17-unique-mask-eq', CY, "    mask[1:] = aux[1:] != aux[:-1]\n", "    mask[1:] = aux[1:] == aux[:-1]\n", 'breaking', ['C17'], 'C17.R1')
add('m-c17-unique-first-unset', CY, "    mask[:1] = True\n", "    mask[:0] = True\n", 'breaking', ['C17'], 'C17.R1')
add('m-c17-unique-np-unique-benign', CY, "    return aux[mask], ar_inds\n", "    return np.unique(ar), ar_inds\n", 'benign', ['C17'])
add('m-c17-argmax-claimant-benign', CY, "        ix = [np.argmin(D[uni_inds[jj], ii]) for jj in range(len(uni))]", "        ix = [np.argmax(D[uni_inds[jj], ii]) for jj in range(len(uni))]",
    'benign', ['C17'])
add('m-c08-noise-rows', S, "    noise = np.random.randn(X.shape[0], nensembles)\n", "    noise = np.random.randn(X.shape[1], nensembles)\n",
    'breaking', ['C08'], 'C08.R1')
add('m-c08-noise-layout-swapped', S, "    noise = np.random.randn(X.shape[0], nensembles)\n", "    noise = np.random.randn(nensembles, X.shape[0])\n",
    'breaking', ['C08'], 'C08.R1')
add('m-c08-noise-layout-transposed-benign', S, "    noise = np.random.randn(X.shape[0], nensembles)\n    args = [(X, noise_scaling, noise[:, ii, None],",
    "    noise = np.random.randn(nensembles, X.shape[0])\n    args = [(X, noise_scaling, noise[ii, :, None],", 'benign', ['C08'])
add('m-c08-ceemd-noise-added', S, "    noise = noise - np.array([r[:, 0] for r in res]).T\n\n    # One IMF has been extracted so far",
    "    noise = noise + np.array([r[:, 0] for r in res]).T\n\n    # One IMF has been extracted so far", 'breaking', ['C08'], 'C08.R4')
add('m-c12-container-step-default', CY, "    def __init__(self, IP, phase_step=1.5 * np.pi, phase_edge=np.pi / 12,",
    "    def __init__(self, IP, phase_step=1.5 / np.pi, phase_edge=np.pi / 12,", 'breaking', ['C12'], 'C12.R')
add('m-c13-container-edge-default', CY, "    def __init__(self, IP, phase_step=1.5 * np.pi, phase_edge=np.pi / 12,",
    "    def __init__(self, IP, phase_step=1.5 * np.pi, phase_edge=np.pi / 13,", 'breaking', ['C13'], 'C13.R3')
add('m-c13-container-edge-form-benign', CY, "    def __init__(self, IP, phase_step=1.5 * np.pi, phase_edge=np.pi / 12,",
    "    def __init__(self, IP, phase_step=np.pi * 1.5, phase_edge=(1 / 12) * np.pi,", 'benign', ['C12', 'C13'])
add('m-c15-df-polarity', CY, "            inds = self.get_matching_cycles(conditions) == False  # noqa: E712",
    "            inds = self.get_matching_cycles(conditions) == True  # noqa: E712", 'breaking', ['C15'], 'C15.R11')
add('m-c15-df-subset-ignored', CY, "        elif subset:\n            conditions = self.mask_conditions\n", "        elif subset:\n            pass\n",
    'breaking', ['C15'], 'C15.R11')
add('m-c15-df-own-conditions', CY, "            inds = self.get_matching_cycles(conditions) == False  # noqa: E712",
    "            inds = self.get_matching_cycles(self.mask_conditions) == False  # noqa: E712", 'breaking', ['C15'], 'C15.R11')
add('m-c15-df-invert-benign', CY, "            inds = self.get_matching_cycles(conditions) == False  # noqa: E712",
    "            inds = ~self.get_matching_cycles(conditions)", 'benign', ['C15'])
add('m-c15-df-keep-benign', CY, "            inds = self.get_matching_cycles(conditions) == False  # noqa: E712\n            d = d.drop(np.where(inds)[0])\n",
    "            d = d[self.get_matching_cycles(conditions)]\n", 'benign', ['C15'])
add('m-c17-record-all-claimants-benign', CY, "        selected.extend(inds[np.where(uni_matches)[0], ii])\n", "        selected.extend(inds[closest_uni_inds, ii])\n",
    'benign', ['C17'])   # over-recording forgoes matches, the pairing stays one-to-one
add('m-c14-iter-range', CY, "        for ii in range(self.ncycles):\n            if self.mode == 'cycle':\n                inds = _cycles_support.map_cycle_to_samples(self.cycle_vect, ii)\n                yield ii, inds",
    "        for ii in range(self.ncycles - 1):\n            if self.mode == 'cycle':\n                inds = _cycles_support.map_cycle_to_samples(self.cycle_vect, ii)\n                yield ii, inds",
    'breaking', ['C14'], 'C14.R6')
add('m-c14-iter-yield-shifted', CY, "                inds = _cycles_support.map_cycle_to_samples(self.cycle_vect, ii)\n                yield ii, inds\n            elif self.mode == 'augmented':\n                inds = _cycles_support.map_cycle_to_samples_augmented(self.cycle_vect, ii, self.phase)\n                yield ii, inds\n            else:\n                raise ValueError\n\n    def iterate_valids",
    "                inds = _cycles_support.map_cycle_to_samples(self.cycle_vect, ii + 1)\n                yield ii, inds\n            elif self.mode == 'augmented':\n                inds = _cycles_support.map_cycle_to_samples_augmented(self.cycle_vect, ii, self.phase)\n                yield ii, inds\n            else:\n                raise ValueError\n\n    def iterate_valids",
    'breaking', ['C14'], 'C14.R6')
add('m-c14-iter-ncycles', CY, "            self.ncycles = cycle_vect.max() + 1\n            self.nsamples = cycle_vect.shape[0]", "            self.ncycles = cycle_vect.max()\n            self.nsamples = cycle_vect.shape[0]",
    'breaking', ['C14'], 'C14.R6')
add('m-c14-iter-niters', CY, "        if self.iter_through == 'cycles':\n            return self.cycle_vect.max() + 1", "        if self.iter_through == 'cycles':\n            return self.cycle_vect.max()",
    'breaking', ['C14'], 'C14.R6')
add('m-c14-ensure-wrong-vector', CY, "        return IterateCycles(cycle_vect=invar)\n", "        return IterateCycles(subset_vect=invar)\n", 'breaking', ['C14'], 'C14.R6')
add('m-c14-iter-niters-attr-benign', CY, "        if self.iter_through == 'cycles':\n            return self.cycle_vect.max() + 1", "        if self.iter_through == 'cycles':\n            return self.ncycles",
    'benign', ['C14'])
add('m-c14-stat-skip-tuple', 'emd/_cycles_support.py', "            args = [v[inds] for v in vals]\n            out[ii] = func(*args)\n        else:\n            out[ii] = func(vals[inds])\n    return out\n\n\ndef get_augmented",
    "            args = [v[inds] for v in vals]\n        else:\n            out[ii] = func(vals[inds])\n    return out\n\n\ndef get_augmented", 'breaking', ['C14'], 'C14.R1')
add('m-c15-slice-route-skip', 'emd/_cycles_support.py', "            args = [v[s] for v in vals]\n            out[idx] = func(*args)\n        return out",
    "            args = [v[s] for v in vals]\n        return out", 'breaking', ['C15'], 'C15.R12')
add('m-c15-slice-route-nan-missing', 'emd/_cycles_support.py', "        return np.array([func(vals[s]) if s is not None else np.nan for s in slices])",
    "        return np.array([func(vals[s]) for s in slices])", 'breaking', ['C15'], 'C15.R12')
add('m-c15-slice-route-range-benign', 'emd/_cycles_support.py', "        for idx, s in enumerate(slices):\n            if s is None:",
    "        for idx in range(len(slices)):\n            s = slices[idx]\n            if s is None:", 'benign', ['C15'])
add('m-l4-round-decimals', CY, "np.round(100*(mask.sum()/phase.shape[0]), 2)", "np.round(2, 100*(mask.sum()/phase.shape[0]))", 'breaking', ['C13', 'C12'], 'L4')
add('m-c03-second-layer-store-shape', S, "        tmp = sift_func(IA[:, ii], **sift_args)\n        imf2[:, ii, :tmp.shape[1]] = tmp", "        tmp = sift_func(IA[:, ii], **sift_args)\n        imf2[:, ii, :tmp.shape[0]] = tmp",
    'breaking', ['C03'], 'C03.R5')
add('m-c03-second-layer-cap-dropped', S, "        sift_args = dict(sift_args, max_imfs=max_imfs)\n", "        sift_args = dict(sift_args)\n", 'breaking', ['C03'], 'C03.R5')
add('m-c03-second-layer-user-cap-replaced', S, "        if ('max_imfs' not in sift_args):\n            sift_args['max_imfs'] = IA.shape[1]", "        if ('max_imfs' in sift_args):\n            sift_args['max_imfs'] = IA.shape[1]",
    'breaking', ['C03'], 'C03.R5')
add('m-c03-second-layer-setdefault-benign', S, "        if ('max_imfs' not in sift_args):\n            sift_args['max_imfs'] = IA.shape[1]", "        sift_args.setdefault('max_imfs', IA.shape[1])",
    'benign', ['C03', 'C06'])
add('m-c03-mask-cap-raised', S, "        if len(mask_freqs) < max_imfs:\n            max_imfs = len(mask_freqs)", "        if len(mask_freqs) > max_imfs:\n            max_imfs = len(mask_freqs)",
    'breaking', ['C03'], 'C03.R')
add('m-c07-nphases-dropped', S, "        next_imf, continue_sift = get_next_imf_mask(proto_imf, mask_freqs[imf_layer], amp,\n                                                    nphases=nphases,\n",
    "        next_imf, continue_sift = get_next_imf_mask(proto_imf, mask_freqs[imf_layer], amp,\n", 'breaking', ['C07'], 'C07.R2')
add('m-c07-numeric-first-freq-branch', S, "    elif first_mask_mode < .5:\n        if first_mask_mode <= 0", "    elif first_mask_mode > .5:\n        if first_mask_mode <= 0",
    'breaking', ['C07'], 'C07.R2')
add('m-c07-float-isinstance-swapped', S, "    elif mask_freqs in ['zc', 'if'] or isinstance(mask_freqs, float):", "    elif mask_freqs in ['zc', 'if'] or isinstance(float, mask_freqs):",
    'breaking', ['C07'], 'C07.R2')
add('m-c07-descending-phases-benign', S, "    phases = np.linspace(0, (2*np.pi), nphases+1)[:nphases]", "    phases = np.linspace(2*np.pi, 0, nphases+1)[:nphases]", 'benign', ['C07'])
add('m-c01-thresh-mean', S, "        if np.abs(next_imf).sum() < sift_thresh:\n            logger.info('Finishing sift: reached threshold {0}'.format(np.abs(next_imf).sum()))",
    "        if np.abs(next_imf).mean() < sift_thresh:\n            logger.info('Finishing sift: reached threshold {0}'.format(np.abs(next_imf).sum()))", 'breaking', ['C01'], 'C01.R3')
add('m-c04-log-threshold-benign', S, "            if niters == 3*max_iters//4:", "            if niters == 3*max_iters/4:", 'benign', ['C04'])
add('m-c08-ceemd-last-column-benign', S, "    noise = noise - np.array([r[:, 0] for r in res]).T\n\n    # One IMF has been extracted so far", "    noise = noise - np.array([r[:, -1] for r in res]).T\n\n    # One IMF has been extracted so far",
    'benign', ['C08'])
SP = 'emd/spectra.py'
add('m-c09-hilbert-axis', SP, "        analytic_signal = signal.hilbert(imf, axis=0)\n\n        # Estimate instantaneous amplitudes directly", "        analytic_signal = signal.hilbert(imf)\n\n        # Estimate instantaneous amplitudes directly",
    'breaking', ['C09'], 'C09.R6')
add('m-c09-hilbert-amp-real', SP, "        iamp = np.abs(analytic_signal)\n", "        iamp = np.real(analytic_signal)\n", 'breaking', ['C09'], 'C09.R6')
add('m-c09-nht-unlift-negated', SP, "                                                        mode='upper')\n        if orig_dim == 2:\n            iamp = iamp[:, :, 0]\n\n    elif method == 'ctrl':",
    "                                                        mode='upper')\n        if orig_dim != 2:\n            iamp = iamp[:, :, 0]\n\n    elif method == 'ctrl':", 'breaking', ['C09'], 'C09.R6')
add('m-c09-smoothing-dropped', SP, "            analytic_signal, smoothing=smooth_phase, ret_phase='unwrapped')", "            analytic_signal, ret_phase='unwrapped')",
    'breaking', ['C09'], 'C09.R6')
add('m-c09-unwrap-axis', SP, "    iphase = np.unwrap(np.angle(complex_signal), axis=0)\n", "    iphase = np.unwrap(np.angle(complex_signal))\n", 'breaking', ['C09'], 'C09.R7')
add('m-c09-ascending-offset', SP, "    if phase_jump == 'ascending':\n        iphase = iphase + np.pi / 2", "    if phase_jump == 'ascending':\n        iphase = iphase - np.pi / 2",
    'breaking', ['C09'], 'C09.R7')
add('m-c09-medfilt-even', SP, "signal.medfilt(iphase[:, ii, jj], 5)", "signal.medfilt(iphase[:, ii, jj], 6)", 'breaking', ['C09'], 'C09.R7')
add('m-c09-unlift-minus-one-benign', SP, "    if orig_dim == 2:\n        iphase = iphase[:, :, 0]\n\n    # Set phase jump", "    if orig_dim == 2:\n        iphase = iphase[:, :, -1]\n\n    # Set phase jump",
    'benign', ['C09'])
add('m-c09-normalise-lift-negated', 'emd/utils.py', "    orig_dim = X.ndim\n    if X.ndim == 2:\n        X = X[:, :, None]", "    orig_dim = X.ndim\n    if X.ndim != 2:\n        X = X[:, :, None]",
    'breaking', ['C09'], 'C09.R3')
add('m-c10-digitize-swapped', SP, "    yinds = np.digitize(infr, freq_edges) - 1", "    yinds = np.digitize(freq_edges, infr) - 1", 'breaking', ['C10'], 'C10.R1')
add('m-c10-filter-on-time', SP, "    goods = np.all(np.c_[coo_data[1][0] < len(freq_edges) - 1, (coo_data[1][0] >= 0)], axis=1)",
    "    goods = np.all(np.c_[coo_data[1][1] < len(freq_edges) - 1, (coo_data[1][0] >= 0)], axis=1)", 'breaking', ['C10'], 'C10.R1')
add('m-c10-filter-axis-dropped', SP, "    goods = np.all(np.c_[coo_data[1][0] < len(freq_edges) - 1, (coo_data[1][0] >= 0)], axis=1)",
    "    goods = np.all(np.c_[coo_data[1][0] < len(freq_edges) - 1, (coo_data[1][0] >= 0)])", 'breaking', ['C10'], 'C10.R1')
add('m-c10-coords-swapped', SP, "    coo_data = (coo_data[0][goods], (coo_data[1][0][goods], coo_data[1][1][goods]))",
    "    coo_data = (coo_data[0][goods], (coo_data[1][1][goods], coo_data[1][0][goods]))", 'breaking', ['C10'], 'C10.R1')
add('m-c10-time-tile-dims', SP, "    xinds = np.tile(np.arange(yinds.shape[0]), (yinds.shape[1], 1)).T", "    xinds = np.tile(np.arange(yinds.shape[0]), (yinds.shape[0], 1)).T",
    'breaking', ['C10'], 'C10.R1')
add('m-c10-1d-nanmean', SP, "                specs[ii - 1, jj] = np.nansum(inam[finds[:, jj] == ii, jj])", "                specs[ii - 1, jj] = np.nanmean(inam[finds[:, jj] == ii, jj])",
    'breaking', ['C10'], 'C10.R3')
add('m-c10-1d-outside-interior-edge', SP, "    outside_inds = (infr < freq_edges[0]) + (infr > freq_edges[-1])", "    outside_inds = (infr < freq_edges[1]) + (infr > freq_edges[-1])",
    'breaking', ['C10'], 'C10.R1')
add('m-c10-1d-bool-subtract', SP, "    outside_inds = (infr < freq_edges[0]) + (infr > freq_edges[-1])", "    outside_inds = (infr < freq_edges[0]) - (infr > freq_edges[-1])",
    'breaking', ['C10'], 'C10.R1')
add('m-c10-1d-or-benign', SP, "    outside_inds = (infr < freq_edges[0]) + (infr > freq_edges[-1])", "    outside_inds = (infr < freq_edges[0]) | (infr > freq_edges[-1])",
    'benign', ['C10'])
add('m-c10-1d-alloc-rows', SP, "    specs = np.zeros((len(freq_edges) - 1, infr.shape[1]))", "    specs = np.zeros((len(freq_edges) + 1, infr.shape[1]))", 'breaking', ['C10'], 'C10.R1')
add('m-c10-1d-no-nan-step-benign', SP, "    infr[outside_inds] = np.nan\n", "    pass\n", 'benign', ['C10'])
add('m-c10-bins-linear-log', SP, "    elif scale == 'linear':\n        edges = np.linspace(data_min, data_max, nbins + 1)", "    elif scale == 'linear':\n        edges = np.exp(np.linspace(np.log(data_min), np.log(data_max), nbins + 1))",
    'breaking', ['C10'], 'C10.R4')
add('m-c11-time-arange-axis', SP, "    T_inds = np.arange(infr.shape[0])[:, None, None]", "    T_inds = np.arange(infr.shape[1])[:, None, None]", 'breaking', ['C11'], 'C11.R1')
add('m-c11-broadcast-swapped', SP, "    T_inds = np.broadcast_to(T_inds, new_shape)", "    T_inds = np.broadcast_to(new_shape, T_inds)", 'breaking', ['C11'], 'C11.R1')
add('m-c11-new-shape', SP, "    new_shape = (infr_inds.shape[0], infr_inds.shape[1], infr2.shape[2])", "    new_shape = (infr_inds.shape[0], infr_inds.shape[1], infr2.shape[1])",
    'breaking', ['C11'], 'C11.R1')
add('m-c11-no-broadcast', SP, "    infr_inds = np.broadcast_to(infr_inds[:, :, None], new_shape)\n", "    pass\n", 'breaking', ['C11'], 'C11.R1')
add('m-c11-unfold-time-dim', SP, "        holo = holo.toarray().reshape(new_shape[0], fold_dim2, fold_dim1)", "        holo = holo.toarray().reshape(new_shape[1], fold_dim2, fold_dim1)",
    'breaking', ['C11'], 'C11.R1')
add('m-c11-fold-true-division', SP, "    infr_inds = infr_inds + IA_inds * fold_dim1", "    infr_inds = infr_inds + IA_inds / fold_dim1", 'breaking', ['C11'], 'C11.R1')
