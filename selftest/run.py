#!/venv/bin/python
"""Checker self-test: apply each catalogued edit to an in-memory copy of one module and run the
owning property's rules on it.  Breaking edits must produce a VIOLATION (exit 1) of the owner,
benign edits must leave every listed property at exit 0.  Nothing is written to /repo.

usage: selftest/run.py [--only ID-substring] [--prop Cxx] [-j N] [-v]
"""
import contextlib
import io
import os
import sys
import concurrent.futures as cf

HERE = os.path.dirname(os.path.dirname(os.path.abspath(__file__)))
sys.path.insert(0, HERE)
sys.dont_write_bytecode = True

from emdverif import cli, report  # noqa: E402
from selftest.catalogue import CATALOGUE  # noqa: E402

REPO = os.environ.get('EMD_VERIF_REPO', '/repo')


def run_one(entry):
    from emdverif import selfval
    return selfval.run_entry((entry, entry['props']))


def main(argv):
    only = None
    prop = None
    jobs = 16
    verbose = False
    i = 0
    while i < len(argv):
        if argv[i] == '--only':
            only = argv[i + 1]
            i += 2
        elif argv[i] == '--prop':
            prop = argv[i + 1]
            i += 2
        elif argv[i] == '-j':
            jobs = int(argv[i + 1])
            i += 2
        elif argv[i] == '-v':
            verbose = True
            i += 1
        else:
            i += 1
    entries = [e for e in CATALOGUE if (only is None or only in e['id']) and (prop is None or prop in e['props'])]
    bad = 0
    counts = {}
    with cf.ProcessPoolExecutor(max_workers=jobs) as ex:
        for mid, status, detail, text in ex.map(run_one, entries):
            counts[status] = counts.get(status, 0) + 1
            if status not in ('OK',) or verbose:
                print('%-12s %-60s %s' % (status, mid, detail))
                if text and status != 'SKIP':
                    print('    ' + '\n    '.join(text.strip().split('\n')[-12:]))
            if status in ('MISS', 'FALSE-ALARM'):
                bad += 1
    print('selftest: %s' % ' '.join('%s=%d' % kv for kv in sorted(counts.items())))
    return 1 if bad else 0


if __name__ == '__main__':
    sys.exit(main(sys.argv[1:]))
